#!/bin/bash
# usage: seedcheck.sh <property> <k> <agent-out-dir> <demo-dest-dir-rel> <test-regex> [pkg]
# 1. confirms the seeded change in a scratch worktree (existing tests green, demo fails with / passes without)
# 2. stores it under /verif/seeded/<property>-<k>/
# 3. applies it to /repo, runs the property's quick check, reverts; records whether it was caught.
set -u
P=$1; K=$2; OUT=$3; DEST=$4; RE=$5; PKG=${6:-./$DEST/}; TPK=${7:-./circuit/ ./ot/ ./p2p/ ./types/ ./gmw/}
export GOFLAGS=-mod=mod GOPROXY=off
D=/verif/seeded/$P-$K
mkdir -p $D
cp $OUT/change_$K.diff $D/patch.diff
cp $OUT/change_${K}_demo_test.go $D/demo_test.go
cp $OUT/change_$K.md $D/agent_notes.md
W=$(mktemp -d /tmp/seedwt.XXXX); rmdir $W
git -C /repo worktree add -q --detach $W HEAD
cd $W
find . -name zz_verif_contracts.go -delete
cp $D/demo_test.go $DEST/zz_seed_demo_test.go
base_demo=$(go test -count=1 -run "$RE" $PKG 2>&1 | tail -1)
rm $DEST/zz_seed_demo_test.go
git apply $D/patch.diff; ap=$?
build=$(go build ./... 2>&1 | tail -1)
tests=$(go test -count=1 $TPK 2>&1 | grep -v "^ok" | head -3)
cp $D/demo_test.go $DEST/zz_seed_demo_test.go
mut_demo=$(go test -count=1 -run "$RE" $PKG 2>&1 | grep -E "^(--- FAIL|FAIL|ok)" | head -3 | tr '\n' ' ')
cd /; git -C /repo worktree remove --force $W
# run the check against the change
git -C /repo apply $D/patch.diff
chk=$(cd /verif && ./check.sh $P quick 2>&1 | grep -E "^VIOLATION|violations" | head -4)
git -C /repo checkout -- .
caught=no; echo "$chk" | grep -q "^VIOLATION" && caught=yes
python3 - "$D" "$P" "$K" "$ap" "$build" "$tests" "$base_demo" "$mut_demo" "$caught" "$chk" <<'PY'
import json,sys
d,p,k,ap,build,tests,base,mut,caught,chk=sys.argv[1:]
meta={"property":p,"seed":int(k),"patch_applies":ap=="0","build_output":build,"existing_tests_not_ok":tests,"demo_on_unchanged_tree":base,"demo_with_change":mut,
 "caught_by_check":caught=="yes","check_output":chk.split("\n"),"needs":open(d+"/agent_notes.md").read()[:1500],
 "ran":["scratch worktree of /repo HEAD (contract files removed)","go build ./...","go test ./circuit/ ./ot/ ./p2p/ ./types/ ./gmw/","demo test with and without the change","git -C /repo apply patch; ./check.sh "+p+" quick; git -C /repo checkout -- ."]}
json.dump(meta,open(d+"/meta.json","w"),indent=1)
print(p,k,"applies" if ap=="0" else "PATCH-FAIL","| unchanged demo:",base[:40],"| changed demo:",mut[:50],"| other tests:",tests[:60] or "ok","| caught:",caught)
PY
