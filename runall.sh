#!/bin/sh
# run every registered check (quick) and summarise
cd "$(dirname "$0")"
for p in $(python3 -c "import json;print(' '.join(sorted(json.load(open('contracts/registry.json')))))"); do
  out=$(./check.sh $p quick 2>&1); rc=$?
  echo "$p rc=$rc $(echo "$out" | tail -1)"
  echo "$out" | grep -E "^VIOLATION|^KNOWN" | head -5 | cut -c1-200
done
