package ot

import (
	"testing"
	"fmt"
)

func govcForall(f func(int) bool) bool { for i := -2; i <= 300; i++ { if !f(i) { return false } }; return true }
func govcExists(f func(int) bool) bool { for i := -2; i <= 300; i++ { if f(i) { return true } }; return false }

// Replay of obligation ot.Label.Xor#ensures0 (postcondition: l.D0 == old(l.D0) ^ o.D0 && l.D1 == old(l.D1) ^ o.D1)
func TestGovcReplay(t *testing.T) {
	l_v := Label{D0: uint64(0), D1: uint64(17293822569102704639)}
	l := &l_v
	old_l_v := Label{D0: uint64(0), D1: uint64(17293822569102704639)}
	old_l := &old_l_v
	_ = old_l
	o := Label{D0: uint64(17293822569102704639), D1: uint64(1152921504606846976)}
	_ = o
	old_o := Label{D0: uint64(17293822569102704639), D1: uint64(1152921504606846976)}
	_ = old_o
	panicked := true
	func() {
		defer func() {
			if r := recover(); r != nil {
				fmt.Printf("GOVC-REPLAY: call panicked: %v\n", r)
			}
		}()
		l.Xor(o)
		panicked = false
		holds := ((l.D0 == (old_l.D0 ^ o.D0)) && (l.D1 == (old_l.D1 ^ o.D1)))
		if !holds {
			fmt.Println("GOVC-REPLAY: REPRODUCED: the postcondition is false on the real code")
		} else {
			fmt.Println("GOVC-REPLAY: NOT-REPRODUCED: the postcondition holds for these inputs")
		}
	}()
	if panicked {
		fmt.Println("GOVC-REPLAY: REPRODUCED: the real code panics on these inputs")
	}
}
