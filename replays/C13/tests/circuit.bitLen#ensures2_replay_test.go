package circuit

import (
	"testing"
	"fmt"
)

func govcForall(f func(int) bool) bool { for i := -2; i <= 300; i++ { if !f(i) { return false } }; return true }
func govcExists(f func(int) bool) bool { for i := -2; i <= 300; i++ { if f(i) { return true } }; return false }

// Replay of obligation circuit.bitLen#ensures2 (postcondition: v >= 2 ==> v >> uint(result-1) == 1)
func TestGovcReplay(t *testing.T) {
	v := uint64(2)
	_ = v
	old_v := uint64(2)
	_ = old_v
	panicked := true
	func() {
		defer func() {
			if r := recover(); r != nil {
				fmt.Printf("GOVC-REPLAY: call panicked: %v\n", r)
			}
		}()
		r0 := bitLen(v)
		_ = r0
		panicked = false
		holds := (!((v >= 2)) || (((v >> uint((r0 - 1))) == 1)))
		if !holds {
			fmt.Println("GOVC-REPLAY: REPRODUCED: the postcondition is false on the real code")
		} else {
			fmt.Println("GOVC-REPLAY: NOT-REPRODUCED: the postcondition holds for these inputs")
		}
	}()
	if panicked {
		fmt.Println("GOVC-REPLAY: REPRODUCED: the real code panics on these inputs")
	}
}
