// c07: bounded stand-in for property C07 (never counted as proved).
//
// Runs the REAL circuit builders of /repo/compiler/circuits at concrete operand/result
// widths, runs the real optimisation passes and Compile, and emits one SMT-LIB QF_BV query
// per (builder, target, widths) asserting that for ALL operand values the compiled circuit's
// outputs equal the mathematical specification modulo 2^|z|. All values are covered by the
// solver; the widths are bounded (stated in the evidence).
package main

import (
	"encoding/json"
	"flag"
	"fmt"
	"math/big"
	"os"
	"os/exec"
	"path/filepath"
	"sort"
	"strconv"
	"strings"
	"sync"
	"time"

	"github.com/markkurossi/mpc/circuit"
	"github.com/markkurossi/mpc/compiler/circuits"
	"github.com/markkurossi/mpc/compiler/utils"
	"github.com/markkurossi/mpc/types"
)

type builder struct {
	name   string
	build  func(cc *circuits.Compiler, x, y, z []*circuits.Wire) error
	spec   func(wx, wy, wz int) string // SMT term of width wz over x (wx bits) and y (wy bits)
	pre    func(wx, wy, wz int) string // extra precondition (e.g. divisor != 0), "" if none
	widths func() [][3]int
	class  func(w [3]int) string // class of a configuration for the known-findings file ("" = none)
	// actual: what the code is known to compute in a known-finding class; a circuit of that class that
	// differs from spec but equals actual is the recorded finding, anything else is a new violation
	actual func(wx, wy, wz int) string
}

func bitsLen(n int) int {
	l := 0
	for n > 0 {
		l++
		n >>= 1
	}
	return l
}

func zext(t string, from, to int) string {
	if to == from {
		return t
	}
	if to < from {
		return fmt.Sprintf("((_ extract %d 0) %s)", to-1, t)
	}
	return fmt.Sprintf("((_ zero_extend %d) %s)", to-from, t)
}

func sext(t string, from, to int) string {
	if to == from {
		return t
	}
	if to < from {
		return fmt.Sprintf("((_ extract %d 0) %s)", to-1, t)
	}
	return fmt.Sprintf("((_ sign_extend %d) %s)", to-from, t)
}

func max(a, b int) int {
	if a > b {
		return a
	}
	return b
}

// arithmetic spec in a width wide enough to be exact, then reduced mod 2^wz
func arith(op string) func(wx, wy, wz int) string {
	return func(wx, wy, wz int) string {
		w := max(max(wx, wy)*2+2, wz)
		r := fmt.Sprintf("(%s %s %s)", op, zext("x", wx, w), zext("y", wy, w))
		return zext(r, w, wz)
	}
}

func boolres(cmp string, signed bool) func(wx, wy, wz int) string {
	return func(wx, wy, wz int) string {
		w := max(wx, wy)
		var a, b string
		if signed {
			a, b = sext("x", wx, w), sext("y", wy, w)
		} else {
			a, b = zext("x", wx, w), zext("y", wy, w)
		}
		return fmt.Sprintf("(ite %s %s %s)", fmt.Sprintf(cmp, a, b), bvconst(1, wz), bvconst(0, wz))
	}
}

func bvconst(v, w int) string { return fmt.Sprintf("(_ bv%d %d)", v, w) }

func triples(max int, extra []int, resultWidths func(wx, wy int) []int, same bool) [][3]int {
	var out [][3]int
	ws := []int{}
	for i := 1; i <= max; i++ {
		ws = append(ws, i)
	}
	for _, wx := range ws {
		for _, wy := range ws {
			if same && wx != wy {
				continue
			}
			for _, wz := range resultWidths(wx, wy) {
				out = append(out, [3]int{wx, wy, wz})
			}
		}
	}
	for _, e := range extra {
		for _, wz := range resultWidths(e, e) {
			out = append(out, [3]int{e, e, wz})
		}
	}
	return out
}

func uniq(xs []int) []int {
	sort.Ints(xs)
	var out []int
	for i, x := range xs {
		if x >= 1 && (i == 0 || x != xs[i-1]) {
			out = append(out, x)
		}
	}
	return out
}

func popcount(t string, w, to int) string {
	var parts []string
	for i := 0; i < w; i++ {
		parts = append(parts, zext(fmt.Sprintf("((_ extract %d %d) %s)", i, i, t), 1, to))
	}
	if len(parts) == 1 {
		return parts[0]
	}
	return "(bvadd " + strings.Join(parts, " ") + ")"
}

func main() {
	tier := flag.String("tier", "quick", "quick|thorough")
	outFile := flag.String("out", "", "write JSON summary")
	work := flag.String("work", "", "scratch directory")
	only := flag.String("only", "", "only builders whose name contains this")
	flag.Parse()
	maxAdd, maxMul, maxDiv := 6, 5, 4
	extra := []int{16, 31, 32, 33}
	mulExtra := []int{6, 7}
	divExtra := []int{6, 7}
	if *tier == "thorough" {
		maxAdd, maxMul, maxDiv = 10, 6, 6
		extra = []int{16, 31, 32, 33, 63, 64, 65, 127, 128, 129, 130}
		mulExtra = []int{7, 8, 9}
		divExtra = []int{7, 8}
	}
	addW := func(wx, wy int) []int { m := max(wx, wy); return uniq([]int{m, m + 1, m + 3, 2 * m, m - 1}) }
	mulW := func(wx, wy int) []int { m := max(wx, wy); return uniq([]int{m, m + 1, 2 * m, 2*m + 1, 2*m + 3, m - 1}) }
	oneW := func(wx, wy int) []int { return []int{1} }
	maxW := func(wx, wy int) []int { return []int{max(wx, wy)} }
	wide := func(w [3]int) int { return max(max(w[0], w[1]), w[2]) }
	bitop := func(f string) func(wx, wy, wz int) string {
		return func(wx, wy, wz int) string {
			w := wide([3]int{wx, wy, wz})
			return zext(fmt.Sprintf(f, zext("x", wx, w), zext("y", wy, w)), w, wz)
		}
	}
	divop := func(op string, signed bool) func(wx, wy, wz int) string {
		return func(wx, wy, wz int) string {
			w := wide([3]int{wx, wy, wz})
			if signed {
				return sext(fmt.Sprintf("(%s %s %s)", op, sext("x", wx, w), sext("y", wy, w)), w, wz)
			}
			return zext(fmt.Sprintf("(%s %s %s)", op, zext("x", wx, w), zext("y", wy, w)), w, wz)
		}
	}
	nonzero := func(wx, wy, wz int) string { return fmt.Sprintf("(distinct y %s)", bvconst(0, wy)) }
	mul := func(name string) builder {
		return builder{name: name, build: func(cc *circuits.Compiler, x, y, z []*circuits.Wire) error {
			switch name {
			case "NewArrayMultiplier":
				return circuits.NewArrayMultiplier(cc, x, y, z)
			case "NewKaratsubaMultiplier(limit=3)":
				// limit 3 is the smallest for which the recursion terminates (the a+b sums are one bit wider than the halves)
				return circuits.NewKaratsubaMultiplier(cc, 3, x, y, z)
			case "NewWallaceMultiplier":
				return circuits.NewWallaceMultiplier(cc, x, y, z)
			}
			return circuits.NewMultiplier(cc, cc.Params.CircMultArrayTreshold, x, y, z)
		}, spec: arith("bvmul"), widths: func() [][3]int { return triples(maxMul, mulExtra, mulW, false) }}
	}
	cmp := func(name string, f func(cc *circuits.Compiler, x, y, z []*circuits.Wire) error, c string, signed bool) builder {
		// signed comparators: equal operand widths only (the builders zero-pad; the SSA back end sign-extends
		// signed operands to a common width before calling them, circuitgen.go "Sign extension")
		return builder{name: name, build: f, spec: boolres(c, signed), widths: func() [][3]int { return triples(maxAdd, extra, oneW, signed) }}
	}
	builders := []builder{
		{name: "NewAdder", build: circuits.NewAdder, spec: arith("bvadd"), widths: func() [][3]int { return triples(maxAdd, extra, addW, false) }},
		{name: "NewSubtractor", build: circuits.NewSubtractor, spec: arith("bvsub"), widths: func() [][3]int { return triples(maxAdd, extra, addW, false) },
			class: func(w [3]int) string {
				if w[2] >= max(w[0], w[1])+2 {
					return "result-width>=max+2"
				}
				return ""
			}, actual: func(wx, wy, wz int) string {
				// borrow-extended by one bit, then zero-filled
				m := max(wx, wy) + 1
				return zext(fmt.Sprintf("(bvsub %s %s)", zext("x", wx, m), zext("y", wy, m)), m, wz)
			}},
		mul("NewMultiplier"), mul("NewArrayMultiplier"), mul("NewKaratsubaMultiplier(limit=3)"), mul("NewWallaceMultiplier"),
		{name: "NewBinaryAND", build: circuits.NewBinaryAND, spec: bitop("(bvand %s %s)"), widths: func() [][3]int { return triples(maxAdd, extra, addW, false) }},
		{name: "NewBinaryOR", build: circuits.NewBinaryOR, spec: bitop("(bvor %s %s)"), widths: func() [][3]int { return triples(maxAdd, extra, addW, false) }},
		{name: "NewBinaryXOR", build: circuits.NewBinaryXOR, spec: bitop("(bvxor %s %s)"), widths: func() [][3]int { return triples(maxAdd, extra, addW, false) }},
		{name: "NewBinaryClear", build: circuits.NewBinaryClear, spec: bitop("(bvand %s (bvnot %s))"), widths: func() [][3]int { return triples(maxAdd, extra, addW, false) }},
		cmp("NewUintLtComparator", circuits.NewUintLtComparator, "(bvult %s %s)", false),
		cmp("NewUintLeComparator", circuits.NewUintLeComparator, "(bvule %s %s)", false),
		cmp("NewUintGtComparator", circuits.NewUintGtComparator, "(bvugt %s %s)", false),
		cmp("NewUintGeComparator", circuits.NewUintGeComparator, "(bvuge %s %s)", false),
		cmp("NewIntLtComparator", circuits.NewIntLtComparator, "(bvslt %s %s)", true),
		cmp("NewIntLeComparator", circuits.NewIntLeComparator, "(bvsle %s %s)", true),
		cmp("NewIntGtComparator", circuits.NewIntGtComparator, "(bvsgt %s %s)", true),
		cmp("NewIntGeComparator", circuits.NewIntGeComparator, "(bvsge %s %s)", true),
		cmp("NewEqComparator", circuits.NewEqComparator, "(= %s %s)", false),
		cmp("NewNeqComparator", circuits.NewNeqComparator, "(distinct %s %s)", false),
		{name: "NewLogicalAND", build: circuits.NewLogicalAND, spec: bitop("(bvand %s %s)"), widths: func() [][3]int { return [][3]int{{1, 1, 1}} }},
		{name: "NewLogicalOR", build: circuits.NewLogicalOR, spec: bitop("(bvor %s %s)"), widths: func() [][3]int { return [][3]int{{1, 1, 1}} }},
		// divider operands: equal widths (the Goldschmidt divider sizes everything from len(a); the SSA back end
		// passes operands of one type); result width = operand width
		{name: "NewUDivider(quotient)", build: func(cc *circuits.Compiler, x, y, z []*circuits.Wire) error {
			return circuits.NewUDivider(cc, x, y, z, nil)
		}, spec: divop("bvudiv", false), pre: nonzero, widths: func() [][3]int { return triples(maxDiv, divExtra, maxW, true) }},
		{name: "NewUDivider(remainder)", build: func(cc *circuits.Compiler, x, y, z []*circuits.Wire) error {
			return circuits.NewUDivider(cc, x, y, nil, z)
		}, spec: divop("bvurem", false), pre: nonzero, widths: func() [][3]int { return triples(maxDiv, divExtra, maxW, true) }},
		{name: "NewIDivider(quotient)", build: func(cc *circuits.Compiler, x, y, z []*circuits.Wire) error {
			return circuits.NewIDivider(cc, x, y, z, nil)
		}, spec: divop("bvsdiv", true), pre: nonzero, widths: func() [][3]int { return triples(maxDiv, divExtra, maxW, true) }},
		{name: "NewIDivider(remainder)", build: func(cc *circuits.Compiler, x, y, z []*circuits.Wire) error {
			return circuits.NewIDivider(cc, x, y, nil, z)
		}, spec: divop("bvsrem", true), pre: nonzero, widths: func() [][3]int { return triples(maxDiv, divExtra, maxW, true) },
			class: func(w [3]int) string { return "signed-remainder" },
			actual: func(wx, wy, wz int) string {
				// |a| mod |b| (testsuite/lang/modi.mpcl pins -42 % 4 = 2)
				abs := func(v string, w int) string {
					return fmt.Sprintf("(ite (bvslt %s %s) (bvneg %s) %s)", v, bvconst(0, w), v, v)
				}
				return fmt.Sprintf("(bvurem %s %s)", abs("x", wx), abs("y", wy))
			}},
		// MUX: x = cond (bit 0) ++ t, y = f; out width = max(|t|,|f|) (the builder rejects other widths)
		{name: "NewMUX", build: func(cc *circuits.Compiler, x, y, z []*circuits.Wire) error {
			return circuits.NewMUX(cc, x[:1], x[1:], y, z)
		}, spec: func(wx, wy, wz int) string {
			t := fmt.Sprintf("((_ extract %d 1) x)", wx-1)
			return fmt.Sprintf("(ite (= ((_ extract 0 0) x) #b1) %s %s)", zext(t, wx-1, wz), zext("y", wy, wz))
		}, widths: func() [][3]int {
			var out [][3]int
			for wt := 1; wt <= maxAdd; wt++ {
				for wf := 1; wf <= maxAdd; wf++ {
					out = append(out, [3]int{wt + 1, wf, max(wt, wf)})
				}
			}
			for _, e := range extra {
				out = append(out, [3]int{e + 1, e, e})
			}
			return out
		}},
		// Hamming distance of zero-padded operands
		{name: "Hamming", build: circuits.Hamming, spec: func(wx, wy, wz int) string {
			w := max(wx, wy)
			ww := max(wz, 9)
			return zext(popcount(fmt.Sprintf("(bvxor %s %s)", zext("x", wx, w), zext("y", wy, w)), w, ww), ww, wz)
		}, widths: func() [][3]int {
			return triples(maxAdd, []int{16, 31, 32, 33}, func(wx, wy int) []int {
				m := max(wx, wy)
				return uniq([]int{bitsLen(m), bitsLen(m) + 1, m, 1})
			}, false)
		}},
	}
	// array index: x = array of n elements of `size` bits, y = index; result = element (index < n)
	for size := 1; size <= 3; size++ {
		size := size
		builders = append(builders, builder{name: fmt.Sprintf("NewIndex(size=%d)", size), build: func(cc *circuits.Compiler, x, y, z []*circuits.Wire) error {
			return circuits.NewIndex(cc, size, x, y, z)
		}, spec: func(wx, wy, wz int) string {
			w := max(wx, wy) + 4
			sh := fmt.Sprintf("(bvmul %s %s)", zext("y", wy, w), bvconst(size, w))
			return zext(fmt.Sprintf("(bvlshr %s %s)", zext("x", wx, w), sh), w, wz)
		}, pre: func(wx, wy, wz int) string {
			n := wx / size
			w := wy + 8
			return fmt.Sprintf("(bvult %s %s)", zext("y", wy, w), bvconst(n, w))
		}, widths: func() [][3]int {
			var out [][3]int
			nmax := 6
			if *tier == "thorough" {
				nmax = 17
			}
			for n := 1; n <= nmax; n++ {
				for wy := 1; wy <= 5; wy++ {
					out = append(out, [3]int{n * size, wy, size})
				}
			}
			return out
		}})
	}
	// bit tests: index is a compile-time constant; y is unused
	for _, set := range []bool{true, false} {
		set := set
		name := "NewBitClrTest"
		if set {
			name = "NewBitSetTest"
		}
		for idx := 0; idx <= 5; idx++ {
			idx := idx
			builders = append(builders, builder{name: fmt.Sprintf("%s(index=%d)", name, idx), build: func(cc *circuits.Compiler, x, y, z []*circuits.Wire) error {
				if set {
					return circuits.NewBitSetTest(cc, x, types.Size(idx), z)
				}
				return circuits.NewBitClrTest(cc, x, types.Size(idx), z)
			}, spec: func(wx, wy, wz int) string {
				bit := "#b0"
				if idx < wx {
					bit = fmt.Sprintf("((_ extract %d %d) x)", idx, idx)
				}
				if !set {
					bit = fmt.Sprintf("(bvnot %s)", bit)
				}
				return bit
			}, widths: func() [][3]int {
				var out [][3]int
				for wx := 1; wx <= 5; wx++ {
					out = append(out, [3]int{wx, 1, 1})
				}
				return out
			}})
		}
	}
	dir := *work
	if dir == "" {
		d, _ := os.MkdirTemp("", "c07-*")
		dir = d
		defer os.RemoveAll(d)
	}
	type job struct {
		name   string
		target string
		w      [3]int
		file   string
		gates  int
		err    string
		class  string
		circ   *circuit.Circuit
		hasAct bool
	}
	var jobs []*job
	for _, b := range builders {
		if *only != "" && !strings.Contains(b.name, *only) {
			continue
		}
		for _, target := range []utils.Target{utils.TargetYao, utils.TargetGMW} {
			for _, w := range b.widths() {
				j := &job{name: b.name, target: fmt.Sprint(target), w: w}
				if b.class != nil {
					j.class = b.class(w)
				}
				jobs = append(jobs, j)
				func() {
					defer func() {
						if r := recover(); r != nil {
							j.err = fmt.Sprintf("builder/compile panicked: %v", r)
						}
					}()
					circ, err := buildCircuit(b.build, target, w)
					if err != nil {
						j.err = "builder returned error: " + err.Error()
						return
					}
					j.circ = circ
					j.gates = circ.NumGates
					pre := ""
					if b.pre != nil {
						pre = b.pre(w[0], w[1], w[2])
					}
					act := ""
					if j.class != "" && b.actual != nil {
						act = b.actual(w[0], w[1], w[2])
						j.hasAct = true
					}
					q, err := smtQuery(circ, w, b.spec(w[0], w[1], w[2]), act, pre)
					if err != nil {
						j.err = err.Error()
						return
					}
					j.file = filepath.Join(dir, fmt.Sprintf("q%d.smt2", len(jobs)))
					os.WriteFile(j.file, []byte(q), 0o644)
				}()
			}
		}
	}
	// solve
	type res struct {
		Builder string  `json:"builder"`
		Target  string  `json:"target"`
		Widths  [3]int  `json:"widths_x_y_z"`
		Gates   int     `json:"gates"`
		Status  string  `json:"status"` // equal | known-deviation | failed | unknown
		Class   string  `json:"class,omitempty"`
		Detail  string  `json:"detail,omitempty"`
		X       string  `json:"x,omitempty"`
		Y       string  `json:"y,omitempty"`
		Real    string  `json:"real_circuit_output,omitempty"`
		Want    string  `json:"specified_output,omitempty"`
		Replay  string  `json:"replayed_on_real_circuit,omitempty"`
		Secs    float64 `json:"seconds"`
	}
	results := make([]res, len(jobs))
	var wg sync.WaitGroup
	sem := make(chan struct{}, 14)
	tmo := "-T:120"
	if *tier == "thorough" {
		tmo = "-T:600"
	}
	for i, j := range jobs {
		results[i] = res{Builder: j.name, Target: j.target, Widths: j.w, Gates: j.gates, Class: j.class}
		if j.err != "" {
			results[i].Status = "failed"
			results[i].Detail = j.err
			continue
		}
		wg.Add(1)
		sem <- struct{}{}
		go func(i int, j *job) {
			defer wg.Done()
			defer func() { <-sem }()
			t0 := time.Now()
			out, _ := exec.Command("z3-new", tmo, j.file).CombinedOutput()
			results[i].Secs = time.Since(t0).Seconds()
			// one or two (check-sat) answers, each possibly followed by a get-value answer
			var answers []string
			var values []string
			for _, ln := range strings.Split(string(out), "\n") {
				ln = strings.TrimSpace(ln)
				switch {
				case ln == "sat" || ln == "unsat" || ln == "unknown" || ln == "timeout":
					answers = append(answers, ln)
					values = append(values, "")
				case len(answers) > 0 && !strings.HasPrefix(ln, "(error"):
					values[len(values)-1] += " " + ln
				}
			}
			r := &results[i]
			if len(answers) == 0 {
				r.Status, r.Detail = "unknown", strings.TrimSpace(string(out))
				return
			}
			switch answers[0] {
			case "unsat":
				r.Status = "equal"
			case "sat":
				r.Status = "failed"
				vals := values[0]
				if j.hasAct && len(answers) > 1 && answers[1] == "unsat" {
					r.Status = "known-deviation"
				} else if j.hasAct && len(answers) > 1 && answers[1] == "sat" {
					vals = values[1]
					r.Detail = "differs from the specification and from the recorded known behaviour; "
				} else if j.hasAct {
					r.Detail = "differs from the specification; comparison with the recorded known behaviour undecided; "
				}
				m := parseValues(vals)
				r.X, r.Y, r.Want = m["x"], m["y"], m["cspec"]
				r.Detail += fmt.Sprintf("counterexample x=%s y=%s circuit=%s specified=%s", m["x"], m["y"], m["cout"], m["cspec"])
				// replay on the real compiled circuit with the real evaluator
				if real, err := computeReal(j.circ, j.w, m["x"], m["y"]); err == nil {
					r.Real = real
					if want, ok := new(big.Int).SetString(strings.TrimPrefix(m["cspec"], "#b"), 2); ok && real != want.Text(2) {
						r.Replay = "confirmed: circuit.Compute gives " + real + ", specified " + want.Text(2)
					} else {
						r.Replay = "not confirmed"
					}
				} else {
					r.Replay = "circuit.Compute failed: " + err.Error()
				}
			default:
				r.Status, r.Detail = "unknown", answers[0]
			}
			os.Remove(j.file)
		}(i, j)
	}
	wg.Wait()
	b, _ := json.MarshalIndent(results, "", " ")
	if *outFile != "" {
		os.WriteFile(*outFile, b, 0o644)
	}
	nf, nk := 0, 0
	for _, r := range results {
		switch r.Status {
		case "equal":
		case "known-deviation":
			nk++
		default:
			nf++
			fmt.Printf("C07-BOUNDED %s %s target=%s widths=%v class=%q: %s\n", r.Status, r.Builder, r.Target, r.Widths, r.Class, r.Detail)
		}
	}
	fmt.Printf("C07-BOUNDED summary: %d circuits, %d equal for all operand values, %d recorded known deviations, %d not proved equal\n", len(results), len(results)-nf-nk, nk, nf)
}

// parseValues reads z3 get-value output "((x #b01) (y #x3) ...)" into binary strings "#b...".
func parseValues(s string) map[string]string {
	m := map[string]string{}
	f := strings.Fields(strings.NewReplacer("(", " ", ")", " ").Replace(s))
	for i := 0; i+1 < len(f); i += 2 {
		v := f[i+1]
		if strings.HasPrefix(v, "#x") {
			var sb strings.Builder
			for _, c := range v[2:] {
				n, _ := strconv.ParseUint(string(c), 16, 8)
				fmt.Fprintf(&sb, "%04b", n)
			}
			v = "#b" + sb.String()
		}
		m[f[i]] = v
	}
	return m
}

// computeReal evaluates the real compiled circuit with circuit.Compute.
func computeReal(c *circuit.Circuit, w [3]int, x, y string) (string, error) {
	xv, ok1 := new(big.Int).SetString(strings.TrimPrefix(x, "#b"), 2)
	yv, ok2 := new(big.Int).SetString(strings.TrimPrefix(y, "#b"), 2)
	if !ok1 || !ok2 {
		return "", fmt.Errorf("no model values")
	}
	in := new(big.Int).Or(xv, new(big.Int).Lsh(yv, uint(w[0])))
	var out []*big.Int
	var err error
	func() {
		defer func() {
			if r := recover(); r != nil {
				err = fmt.Errorf("panic: %v", r)
			}
		}()
		out, err = c.Compute([]*big.Int{in})
	}()
	if err != nil {
		return "", err
	}
	if len(out) != 1 {
		return "", fmt.Errorf("%d outputs", len(out))
	}
	return out[0].Text(2), nil
}

func buildCircuit(build func(cc *circuits.Compiler, x, y, z []*circuits.Wire) error, target utils.Target, w [3]int) (*circuit.Circuit, error) {
	params := utils.NewParams()
	params.Target = target
	calloc := circuits.NewAllocator()
	mk := func(n int, output bool) []*circuits.Wire {
		var r []*circuits.Wire
		for i := 0; i < n; i++ {
			wr := calloc.Wire()
			wr.SetOutput(output)
			r = append(r, wr)
		}
		return r
	}
	io := func(size int, name string) circuit.IO {
		return circuit.IO{circuit.IOArg{Name: name, Type: types.Info{Type: types.TUint, IsConcrete: true, Bits: types.Size(size)}}}
	}
	inputs := mk(w[0]+w[1], false)
	outputs := mk(w[2], true)
	cc, err := circuits.NewCompiler(params, calloc, io(w[0]+w[1], "in"), io(w[2], "out"), inputs, outputs)
	if err != nil {
		return nil, err
	}
	z := make([]*circuits.Wire, w[2])
	copy(z, outputs)
	if err := build(cc, inputs[:w[0]], inputs[w[0]:], z); err != nil {
		return nil, err
	}
	// builders may replace result slots (z[i] = cc.ZeroWire()): wire them to the outputs like the SSA back end does
	for i := range z {
		if z[i] != outputs[i] {
			cc.ID(z[i], outputs[i])
		}
	}
	cc.ConstPropagate()
	cc.ShortCircuitXORZero()
	cc.Prune()
	return cc.Compile(), nil
}

// smtQuery: exists x, y (satisfying pre) such that circuit(x, y) != spec.
func smtQuery(c *circuit.Circuit, w [3]int, spec, actual, pre string) (string, error) {
	var sb strings.Builder
	sb.WriteString("(set-logic QF_BV)\n")
	fmt.Fprintf(&sb, "(declare-fun x () (_ BitVec %d))\n(declare-fun y () (_ BitVec %d))\n", w[0], w[1])
	nin := w[0] + w[1]
	for i := 0; i < nin; i++ {
		if i < w[0] {
			fmt.Fprintf(&sb, "(define-fun w%d () Bool (= ((_ extract %d %d) x) #b1))\n", i, i, i)
		} else {
			fmt.Fprintf(&sb, "(define-fun w%d () Bool (= ((_ extract %d %d) y) #b1))\n", i, i-w[0], i-w[0])
		}
	}
	defined := map[circuit.Wire]bool{}
	for i := 0; i < nin; i++ {
		defined[circuit.Wire(i)] = true
	}
	for gi, g := range c.Gates {
		if !defined[g.Input0] || (g.Op != circuit.INV && !defined[g.Input1]) {
			return "", fmt.Errorf("gate %d uses an undefined wire", gi)
		}
		var e string
		switch g.Op {
		case circuit.XOR:
			e = fmt.Sprintf("(xor w%d w%d)", g.Input0, g.Input1)
		case circuit.XNOR:
			e = fmt.Sprintf("(= w%d w%d)", g.Input0, g.Input1)
		case circuit.AND:
			e = fmt.Sprintf("(and w%d w%d)", g.Input0, g.Input1)
		case circuit.OR:
			e = fmt.Sprintf("(or w%d w%d)", g.Input0, g.Input1)
		case circuit.INV:
			e = fmt.Sprintf("(not w%d)", g.Input0)
		default:
			return "", fmt.Errorf("gate %d: bad op", gi)
		}
		fmt.Fprintf(&sb, "(define-fun w%d () Bool %s)\n", g.Output, e)
		defined[g.Output] = true
	}
	// outputs are the last w[2] wires
	first := c.NumWires - w[2]
	var bits []string
	for i := w[2] - 1; i >= 0; i-- {
		wi := circuit.Wire(first + i)
		if !defined[wi] {
			return "", fmt.Errorf("output wire %d (result bit %d) is not driven by any gate", wi, i)
		}
		bits = append(bits, fmt.Sprintf("(ite w%d #b1 #b0)", wi))
	}
	out := bits[0]
	if len(bits) > 1 {
		out = "(concat " + strings.Join(bits, " ") + ")"
	}
	if pre != "" {
		fmt.Fprintf(&sb, "(assert %s)\n", pre)
	}
	fmt.Fprintf(&sb, "(define-fun cout () (_ BitVec %d) %s)\n(define-fun cspec () (_ BitVec %d) %s)\n", w[2], out, w[2], spec)
	sb.WriteString("(push)\n(assert (distinct cout cspec))\n(check-sat)\n(get-value (x y cout cspec))\n(pop)\n")
	if actual != "" {
		fmt.Fprintf(&sb, "(define-fun cactual () (_ BitVec %d) %s)\n", w[2], actual)
		sb.WriteString("(push)\n(assert (distinct cout cactual))\n(check-sat)\n(get-value (x y cout cspec))\n(pop)\n")
	}
	return sb.String(), nil
}
