module c07

go 1.25.0

require github.com/markkurossi/mpc v0.0.0

require (
	github.com/markkurossi/crypto v0.0.0-20240520115340-daed3f9a1082 // indirect
	github.com/markkurossi/tabulate v0.0.0-20251126123558-a08056f6160f // indirect
	golang.org/x/text v0.32.0 // indirect
)

replace github.com/markkurossi/mpc => /repo
