#!/bin/sh
# usage: ./check.sh <property id> [quick|thorough]
# Rebuilds nothing in /repo: govc loads /repo's current working tree (with -tags verif) on every run.
cd "$(dirname "$0")"
export GOFLAGS=-mod=mod GOPROXY=off
[ -x bin/govc ] || ./setup.sh >/dev/null || exit 2
exec bin/govc check -prop "$1" -tier "${2:-${VERIF_TIER:-quick}}"
