#!/bin/sh
# run all quick checks on the clean /repo tree and refuse to go on unless every one exits 0
cd "$(dirname "$0")"
[ -z "$(git -C /repo status --short | grep -v '^??')" ] || { echo "/repo has uncommitted changes"; exit 1; }
bin/govc locals . ./bmr ./gmw ./circuit ./compiler/circuits ./ot ./p2p ./sha2pc ./vole ./env ./types >/dev/null || { echo "locals failed"; exit 1; }
out=$(./runall.sh 2>&1)
echo "$out" | grep "rc="
if echo "$out" | grep "rc=" | grep -qv "rc=0"; then echo "NOT CLEAN: do not commit"; exit 1; fi
echo "all checks pass"
