#!/bin/bash
# usage: seedcheck2.sh <property> <k> <agent-out-dir> <demo-dest-dir-rel> <test-regex> [check-property (default: same)]
# Like seedcheck.sh, but works entirely in a scratch worktree of /repo and a scratch copy of /verif
# (govc check -root/-verif), so that several seeds can be examined in parallel and /repo stays
# untouched. The authoritative must-fail run on /repo itself is recheck_seeds.sh.
# 1. confirms the seeded change (existing tests green, demo fails with / passes without)
# 2. stores it under /verif/seeded/<property>-<k>/
# 3. runs the property's quick check against the changed worktree; records whether it was caught.
set -u
P=$1; K=$2; OUT=$3; DEST=$4; RE=$5; CP=${6:-$P}
TPK="./circuit/ ./ot/ ./p2p/ ./types/ ./gmw/ ./compiler/... ./sha2pc/ ./bmr/ ./vole/ ."
export GOFLAGS=-mod=mod GOPROXY=off
D=/verif/seeded/$P-$K
mkdir -p $D
cp $OUT/change_$K.diff $D/patch.diff
cp $OUT/change_${K}_demo_test.go $D/demo_test.go
cp $OUT/change_$K.md $D/agent_notes.md
W=$(mktemp -d /tmp/seedwt.XXXX); rmdir $W
V=$(mktemp -d /tmp/seedvf.XXXX)
git -C /repo worktree add -q --detach $W HEAD
# untracked contract files of the working tree (not yet committed hooks)
(cd /repo && git ls-files --others --exclude-standard | grep zz_verif_contracts.go | while read f; do cp /repo/$f $W/$f; done)
cd $W
cp $D/demo_test.go $DEST/zz_seed_demo_test.go
base_demo=$(go test -vet=off -count=1 -run "$RE" ./$DEST/ 2>&1 | tail -1)
rm $DEST/zz_seed_demo_test.go
git apply $D/patch.diff; ap=$?
build=$(go build ./... 2>&1 | tail -1)
tests=$(go test -vet=off -count=1 $TPK 2>&1 | grep -E "^(FAIL|--- FAIL|panic)" | grep -v "sha512\|TestSuite\|^FAIL$\|mpc\s" | head -5)
cp $D/demo_test.go $DEST/zz_seed_demo_test.go
mut_demo=$(go test -vet=off -count=1 -run "$RE" ./$DEST/ 2>&1 | grep -E "^(--- FAIL|FAIL|ok|panic)" | head -3 | tr '\n' ' ')
rm $DEST/zz_seed_demo_test.go
rsync -a --exclude .git --exclude seeded --exclude replays /verif/ $V/
chk=$(cd $V && bin/govc check -root $W -verif $V -prop $CP -tier quick 2>&1 | grep -E "^VIOLATION|violations" | head -4)
cd /; git -C /repo worktree remove --force $W; rm -rf $V
caught=no; echo "$chk" | grep -q "^VIOLATION" && caught=yes
python3 - "$D" "$P" "$K" "$ap" "$build" "$tests" "$base_demo" "$mut_demo" "$caught" "$chk" "$CP" <<'PY'
import json,sys
d,p,k,ap,build,tests,base,mut,caught,chk,cp=sys.argv[1:]
meta={"property":p,"seed":int(k),"patch_applies":ap=="0","build_output":build,"existing_tests_not_ok":tests,"demo_on_unchanged_tree":base,"demo_with_change":mut,
 "caught_by_check":caught=="yes","check_property":cp,"check_output":[l[:400] for l in chk.split("\n")],"needs":open(d+"/agent_notes.md").read()[:1500],
 "ran":["scratch worktree of /repo HEAD","go build ./...","go test -vet=off ./circuit/ ./ot/ ./p2p/ ./types/ ./gmw/ ./compiler/... ./sha2pc/ ./bmr/ ./vole/ . (the five sha512 programs of the root TestSuite fail on the unchanged tree too: emptied files)","demo test with and without the change","govc check -root <changed worktree> -prop "+cp+" -tier quick (recheck_seeds.sh repeats this on /repo itself)"]}
json.dump(meta,open(d+"/meta.json","w"),indent=1)
print(p,k,"applies" if ap=="0" else "PATCH-FAIL","| unchanged demo:",base[:40],"| changed demo:",mut[:60],"| other tests:",tests[:100] or "ok","| caught:",caught, "|", chk[:200])
PY
