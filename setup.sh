#!/bin/sh
# Build the verifier offline from files on disk.
set -e
cd "$(dirname "$0")/govc"
export GOFLAGS=-mod=mod GOPROXY=off
mkdir -p ../bin
go build -o ../bin/govc .
echo "built /verif/bin/govc"
