#!/bin/sh
# Build the verifier offline from files on disk.
set -e
cd "$(dirname "$0")/govc"
export GOFLAGS=-mod=mod GOPROXY=off
mkdir -p ../bin
go build -o ../bin/govc .
echo "built /verif/bin/govc"

# Lean lemmas used as axioms: check them once (Lean 4 + Mathlib, offline) and record the hash.
cd "$(dirname "$0")/../lemmas" 2>/dev/null || cd /verif/lemmas
for f in *.lean; do
  [ -f "$f" ] || continue
  sum=$(sha256sum "$f" | cut -d' ' -f1)
  if [ "$(cat "$f.checked" 2>/dev/null)" != "$sum" ]; then
    if out=$(lean "$f" 2>&1) && [ -z "$(echo "$out" | grep -i 'error')" ]; then
      echo "$sum" > "$f.checked"; echo "lean accepted $f"
    else
      echo "lean REJECTED $f:"; echo "$out" | head -20; rm -f "$f.checked"; exit 1
    fi
  fi
done
