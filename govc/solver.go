package main

// Solver portfolio: z3 5.1 (z3-new), z3 4.8.12 (z3), cvc5 raced per obligation.

import (
	"bytes"
	"context"
	"os"
	"os/exec"
	"path/filepath"
	"strconv"
	"strings"
	"time"
)

type SolveResult struct {
	Status    string // unsat | sat | unknown | timeout | error
	Solver    string
	Seconds   float64
	Output    string // full output of the deciding solver (model on sat)
	All       map[string]string
	Candidate string // model of the relaxed query (candidate counterexample), if any
}

type solverSpec struct {
	name string
	bin  string
	args func(file string, timeoutS int) []string
	// prep rewrites the script for this solver
	prep func(script string) string
}

func cvc5Prep(s string) string {
	// cvc5 wants produce-models before set-logic; it needs ALL for mixed theories.
	const pm = "(set-option :produce-models true)\n"
	if strings.HasPrefix(s, pm) {
		return pm + "(set-logic ALL)\n" + s[len(pm):]
	}
	return "(set-logic ALL)\n" + s
}

var solverSpecs = []solverSpec{
	{name: "z3-5.1", bin: "z3-new", args: func(f string, t int) []string {
		return []string{"-T:" + itoa(t), f}
	}},
	{name: "z3-4.8", bin: "z3", args: func(f string, t int) []string {
		return []string{"-T:" + itoa(t), f}
	}},
	{name: "cvc5-1.0", bin: "cvc5", args: func(f string, t int) []string {
		return []string{"--tlimit=" + itoa(t*1000), "--arrays-exp", f}
	}, prep: cvc5Prep},
}

func itoa(i int) string { return strconv.Itoa(i) }

// Solve races the solvers. script is the full query; relaxed (may be empty) is a weakening
// of it (quantified assumptions dropped after pre-instantiation): unsat of either proves the
// obligation, sat counts only for the full query. A model of the relaxed query is returned as
// a candidate counterexample (Candidate) when nothing decides.
func Solve(script, relaxed, bvabs, goaldir, cone, dir, base string, timeoutS int, which []string) SolveResult {
	os.MkdirAll(dir, 0o755)
	ctx, cancel := context.WithTimeout(context.Background(), time.Duration(timeoutS+2)*time.Second)
	defer cancel()
	type res struct {
		name, status, out string
		secs              float64
		relaxed           bool
	}
	type job struct {
		sp      solverSpec
		script  string
		relaxed bool
		tag     string
	}
	var jobs []job
	for _, sp := range solverSpecs {
		if which != nil {
			ok := false
			for _, w := range which {
				if strings.HasPrefix(sp.name, w) {
					ok = true
				}
			}
			if !ok {
				continue
			}
		}
		jobs = append(jobs, job{sp, script, false, ""})
		if relaxed != "" && sp.name != "z3-4.8" {
			jobs = append(jobs, job{sp, relaxed, true, "+inst"})
		}
		if bvabs != "" && sp.name == "z3-5.1" {
			jobs = append(jobs, job{sp, bvabs, true, "+inst+bvabs"})
		}
		if goaldir != "" && sp.name != "cvc5-1.0" {
			jobs = append(jobs, job{sp, goaldir, true, "+goalinst"})
		}
		if cone != "" && sp.name != "cvc5-1.0" {
			jobs = append(jobs, job{sp, cone, true, "+cone"})
		}
	}
	ch := make(chan res, len(jobs))
	for _, j := range jobs {
		j := j
		go func() {
			s := j.script
			if j.sp.prep != nil {
				s = j.sp.prep(s)
			}
			tag := ""
			if j.relaxed {
				tag = ".qf" + j.tag
			}
			f := filepath.Join(dir, base+"."+j.sp.name+tag+".smt2")
			os.WriteFile(f, []byte(s), 0o644)
			t0 := time.Now()
			cmd := exec.CommandContext(ctx, j.sp.bin, j.sp.args(f, timeoutS)...)
			var out bytes.Buffer
			cmd.Stdout = &out
			cmd.Stderr = &out
			cmd.Run()
			secs := time.Since(t0).Seconds()
			o := out.String()
			first := strings.TrimSpace(strings.SplitN(strings.TrimSpace(o), "\n", 2)[0])
			st := "error"
			switch {
			case first == "unsat":
				st = "unsat"
			case first == "sat":
				st = "sat"
			case first == "unknown":
				st = "unknown"
			case first == "timeout" || strings.Contains(o, "timeout") || strings.Contains(o, "interrupted") || ctx.Err() != nil:
				st = "timeout"
			}
			if os.Getenv("GOVC_KEEPFILES") == "" {
				os.Remove(f)
			}
			ch <- res{j.sp.name + j.tag, st, o, secs, j.relaxed}
		}()
	}
	all := map[string]string{}
	var best *res
	candidate := ""
	t0 := time.Now()
	for i := 0; i < len(jobs); i++ {
		r := <-ch
		all[r.name] = r.status
		if r.relaxed {
			if r.status == "sat" && candidate == "" && !strings.Contains(r.name, "bvabs") {
				candidate = r.out
			}
			if r.status != "unsat" {
				continue
			}
		}
		if r.status == "unsat" || r.status == "sat" {
			rr := r
			best = &rr
			cancel()
			break
		}
		if best == nil || (best.status == "error" && r.status != "error") {
			rr := r
			best = &rr
		}
	}
	if best == nil {
		return SolveResult{Status: "error", All: all, Candidate: candidate}
	}
	secs := best.secs
	if best.status != "unsat" && best.status != "sat" {
		secs = time.Since(t0).Seconds()
	}
	name := best.name
	return SolveResult{Status: best.status, Solver: name, Seconds: secs, Output: best.out, All: all, Candidate: candidate}
}
