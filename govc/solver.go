package main

// Solver portfolio: z3 5.1 (z3-new), z3 4.8.12 (z3), cvc5 raced per obligation.

import (
	"bytes"
	"context"
	"os"
	"os/exec"
	"path/filepath"
	"strconv"
	"strings"
	"time"
)

type SolveResult struct {
	Status  string // unsat | sat | unknown | timeout | error
	Solver  string
	Seconds float64
	Output  string // full output of the deciding solver (model on sat)
	All     map[string]string
}

type solverSpec struct {
	name string
	bin  string
	args func(file string, timeoutS int) []string
	// prep rewrites the script for this solver
	prep func(script string) string
}

func cvc5Prep(s string) string {
	// cvc5 wants produce-models before set-logic; it needs ALL for mixed theories.
	const pm = "(set-option :produce-models true)\n"
	if strings.HasPrefix(s, pm) {
		return pm + "(set-logic ALL)\n" + s[len(pm):]
	}
	return "(set-logic ALL)\n" + s
}

var solverSpecs = []solverSpec{
	{name: "z3-5.1", bin: "z3-new", args: func(f string, t int) []string {
		return []string{"-T:" + itoa(t), f}
	}},
	{name: "z3-4.8", bin: "z3", args: func(f string, t int) []string {
		return []string{"-T:" + itoa(t), f}
	}},
	{name: "cvc5-1.0", bin: "cvc5", args: func(f string, t int) []string {
		return []string{"--tlimit=" + itoa(t*1000), "--arrays-exp", f}
	}, prep: cvc5Prep},
}

func itoa(i int) string { return strconv.Itoa(i) }

// Solve races the solvers on script. which restricts to named solvers (nil = all).
// requireAll (thorough): wait for every solver, to cross-check.
func Solve(script, dir, base string, timeoutS int, which []string) SolveResult {
	os.MkdirAll(dir, 0o755)
	ctx, cancel := context.WithTimeout(context.Background(), time.Duration(timeoutS+2)*time.Second)
	defer cancel()
	type res struct {
		name, status, out string
		secs              float64
	}
	ch := make(chan res, len(solverSpecs))
	n := 0
	for _, sp := range solverSpecs {
		if which != nil {
			ok := false
			for _, w := range which {
				if strings.HasPrefix(sp.name, w) {
					ok = true
				}
			}
			if !ok {
				continue
			}
		}
		n++
		sp := sp
		go func() {
			s := script
			if sp.prep != nil {
				s = sp.prep(s)
			}
			f := filepath.Join(dir, base+"."+sp.name+".smt2")
			os.WriteFile(f, []byte(s), 0o644)
			t0 := time.Now()
			cmd := exec.CommandContext(ctx, sp.bin, sp.args(f, timeoutS)...)
			var out bytes.Buffer
			cmd.Stdout = &out
			cmd.Stderr = &out
			cmd.Run()
			secs := time.Since(t0).Seconds()
			o := out.String()
			first := strings.TrimSpace(strings.SplitN(strings.TrimSpace(o), "\n", 2)[0])
			st := "error"
			switch {
			case first == "unsat":
				st = "unsat"
			case first == "sat":
				st = "sat"
			case first == "unknown":
				st = "unknown"
			case first == "timeout" || strings.Contains(o, "timeout") || strings.Contains(o, "interrupted") || ctx.Err() != nil:
				st = "timeout"
			}
			os.Remove(f)
			ch <- res{sp.name, st, o, secs}
		}()
	}
	all := map[string]string{}
	var best *res
	t0 := time.Now()
	for i := 0; i < n; i++ {
		r := <-ch
		all[r.name] = r.status
		if r.status == "unsat" || r.status == "sat" {
			rr := r
			best = &rr
			cancel()
			break
		}
		if best == nil || (best.status == "error" && r.status != "error") {
			rr := r
			best = &rr
		}
	}
	if best == nil {
		return SolveResult{Status: "error", All: all}
	}
	secs := best.secs
	if best.status != "unsat" && best.status != "sat" {
		secs = time.Since(t0).Seconds()
	}
	return SolveResult{Status: best.status, Solver: best.name, Seconds: secs, Output: best.out, All: all}
}
