package main

import (
	"fmt"
	"os"
	"strings"
)

// Deterministic pre-instantiation of universally quantified assumptions.
//
// SMT solvers' E-matching is unreliable when trigger terms contain arithmetic
// (select(row, off+i)).  Terms here are hash-consed and normalised the same way
// on both sides, so a syntactic one-way match of the triggers chosen by
// choosePatterns against the ground terms of the query is robust.  Instances are
// added next to the quantified assumption (which stays), so this only ever adds
// consequences of the assumptions: it cannot make an invalid obligation pass.

type qsite struct {
	top  *Term // the top-level assumption containing q at a positive position
	q    *Term
	pats [][]*Term
}

// positiveQuantifiers finds universal quantifiers at positive positions of t
// (through and / or / => consequent), not nested in other quantifiers.
func positiveQuantifiers(t *Term, out *[]*Term) {
	switch t.Op {
	case "forall":
		*out = append(*out, t)
	case "and", "or":
		for _, a := range t.Args {
			positiveQuantifiers(a, out)
		}
	case "=>":
		positiveQuantifiers(t.Args[1], out)
	}
}

func collectGround(c *TermCtx, roots []*Term, seen map[int]bool, out *[]*Term) {
	var walk func(t *Term)
	walk = func(t *Term) {
		if seen[t.id] {
			return
		}
		seen[t.id] = true
		if t.Op == "forall" || t.Op == "exists" {
			// ground sub-terms inside quantifier bodies still count when closed
			for _, a := range t.Args {
				walk(a)
			}
			return
		}
		for _, a := range t.Args {
			walk(a)
		}
		if !t.open && (t.Op == "select" || t.Op == "app") {
			*out = append(*out, t)
		}
	}
	for _, r := range roots {
		walk(r)
	}
}

// match pattern p (may contain bound variables in bv) against ground term g.
func (c *TermCtx) match(p, g *Term, bv map[int]bool, b map[*Term]*Term) bool {
	if !p.open {
		return p == g
	}
	if p.Op == "bound" {
		if !bv[p.id] {
			return false
		}
		if o, ok := b[p]; ok {
			return o == g
		}
		if p.Sort != g.Sort {
			return false
		}
		b[p] = g
		return true
	}
	// linear index patterns: (+ A x) / (bvadd A x) with A closed and x a bound variable
	if (p.Op == "+" || p.Op == "bvadd") && len(p.Args) == 2 && p.Sort == g.Sort {
		a, x := p.Args[0], p.Args[1]
		if a.open && !x.open {
			a, x = x, a
		}
		if !a.open && x.Op == "bound" && bv[x.id] {
			var val *Term
			if p.Op == "+" {
				val = c.ISub(g, a)
			} else {
				val = c.BVSub(g, a)
			}
			if o, ok := b[x]; ok {
				return o == val
			}
			b[x] = val
			return true
		}
	}
	if p.Op != g.Op || p.Name != g.Name || len(p.Args) != len(g.Args) || p.Sort != g.Sort || p.P1 != g.P1 || p.P2 != g.P2 {
		return false
	}
	// read of a row through a heap update with symbolic refs: select(select(store(h, r, A), r'), i)
	// may be a read of A; instantiating on it is harmless when it is not
	if p.Op == "select" && !p.Args[0].open && p.Args[0] != g.Args[0] && mayBeRow(g.Args[0], p.Args[0], 0) {
		return c.match(p.Args[1], g.Args[1], bv, b)
	}
	for i := range p.Args {
		if !c.match(p.Args[i], g.Args[i], bv, b) {
			return false
		}
	}
	return true
}

func copyBinding(b map[*Term]*Term) map[*Term]*Term {
	n := make(map[*Term]*Term, len(b))
	for k, v := range b {
		n[k] = v
	}
	return n
}

// preInstantiate returns extra assumptions: instances of quantified assumptions.
func (c *TermCtx) preInstantiate(assumptions []*Term, goal *Term, rounds, maxPerQ int) []*Term {
	return c.preInstantiateOpt(assumptions, goal, rounds, maxPerQ, false)
}

// preInstantiateOpt: with goalOnly the ground terms that seed the trigger matching are those of
// the goal (and of the instances derived from it) only: a small, goal-directed instance set.
func (c *TermCtx) preInstantiateOpt(assumptions []*Term, goal *Term, rounds, maxPerQ int, goalOnly bool) []*Term {
	var sites, seedOnly []qsite
	for _, a := range assumptions {
		var qs []*Term
		positiveQuantifiers(a, &qs)
		for _, q := range qs {
			pats := c.choosePatterns(q)
			if len(pats) == 0 {
				// no usable trigger (the bound variable only occurs under div/mod, ...): still a
				// candidate for skolem seeding below
				seedOnly = append(seedOnly, qsite{top: a, q: q})
				continue
			}
			sites = append(sites, qsite{top: a, q: q, pats: pats})
		}
	}
	if len(sites) == 0 && len(seedOnly) == 0 {
		return nil
	}
	seen := map[int]bool{}
	var ground []*Term
	roots := append([]*Term{}, assumptions...)
	if goalOnly {
		roots = nil
	}
	if goal != nil {
		roots = append(roots, goal)
	}
	collectGround(c, roots, seen, &ground)
	done := map[string]bool{}
	count := map[int]int{}
	var extra []*Term
	start := 0
	// Skolem seeding: a goal "forall j :: P(j)" has been skolemised to P(sk$j). Single-variable
	// quantified assumptions (typically the same invariant in the previous state, whose array
	// terms differ from the goal's so that no syntactic trigger match exists) are instantiated
	// at the goal's skolem constants. Instances of assumptions only: cannot make an invalid
	// obligation pass.
	if goal != nil {
		var sks []*Term
		skSeen := map[int]bool{}
		var walkSk func(t *Term)
		walkSk = func(t *Term) {
			if skSeen[t.id] {
				return
			}
			skSeen[t.id] = true
			if t.Op == "var" && strings.HasPrefix(t.Name, "sk$") && len(sks) < 4 {
				sks = append(sks, t)
			}
			for _, a := range t.Args {
				walkSk(a)
			}
		}
		walkSk(goal)
		var seeded []*Term
		for _, s := range append(append([]qsite{}, sites...), seedOnly...) {
			if len(s.q.BVars) != 1 {
				continue
			}
			for _, sk := range sks {
				if sk.Sort != s.q.BVars[0].Sort || skBase(sk.Name) != bvBase(s.q.BVars[0].Name) {
					// same variable name as the skolemised goal variable: the same invariant (or a
					// sibling clause) in another state; everything else is found by trigger matching
					continue
				}
				b := map[*Term]*Term{s.q.BVars[0]: sk}
				key := keyOf(s.q, b)
				if done[key] {
					continue
				}
				done[key] = true
				count[s.q.id]++
				inst := c.Subst(s.q.Args[0], b)
				full := c.Subst(s.top, map[*Term]*Term{s.q: inst})
				if full.IsTrue() {
					continue
				}
				seeded = append(seeded, full)
			}
		}
		if os.Getenv("GOVC_DEBUG") == "4" {
			fmt.Fprintf(os.Stderr, "seeding: %d skolems, %d sites, %d seedOnly, %d seeded (goalOnly=%v)\n", len(sks), len(sites), len(seedOnly), len(seeded), goalOnly)
		}
		if len(seeded) > 0 {
			extra = append(extra, seeded...)
			collectGround(c, seeded, seen, &ground)
		}
	}
	for r := 0; r < rounds; r++ {
		cur := ground[start:]
		_ = cur
		var newInst []*Term
		for _, s := range sites {
			bv := map[int]bool{}
			for _, b := range s.q.BVars {
				bv[b.id] = true
			}
			for _, mp := range s.pats {
				// all bindings for the multi-pattern (join over its terms)
				bindings := []map[*Term]*Term{{}}
				for _, p := range mp {
					var next []map[*Term]*Term
					for _, b := range bindings {
						for _, g := range ground {
							nb := copyBinding(b)
							if c.match(p, g, bv, nb) {
								next = append(next, nb)
								if len(next) > 400 {
									break
								}
							}
						}
					}
					bindings = next
					if len(bindings) == 0 {
						break
					}
				}
				for _, b := range bindings {
					if len(b) != len(s.q.BVars) {
						continue
					}
					key := keyOf(s.q, b)
					if done[key] {
						continue
					}
					if count[s.q.id] >= maxPerQ {
						break
					}
					done[key] = true
					count[s.q.id]++
					inst := c.Subst(s.q.Args[0], b)
					full := c.Subst(s.top, map[*Term]*Term{s.q: inst})
					if full.IsTrue() {
						continue
					}
					newInst = append(newInst, full)
				}
			}
		}
		if len(newInst) == 0 {
			break
		}
		extra = append(extra, newInst...)
		start = len(ground)
		collectGround(c, newInst, seen, &ground)
	}
	if os.Getenv("GOVC_DEBUG") == "2" {
		for _, s := range sites {
			var ps []string
			for _, mp := range s.pats {
				var one []string
				for _, p := range mp {
					one = append(one, c.Short(p))
				}
				ps = append(ps, "{"+strings.Join(one, ", ")+"}")
			}
			fmt.Fprintf(os.Stderr, "  Q%d vars=%d instances=%d patterns=%s\n", s.q.id, len(s.q.BVars), count[s.q.id], strings.Join(ps, " "))
		}
	}
	return extra
}

func keyOf(q *Term, b map[*Term]*Term) string {
	s := itoa(q.id)
	for _, v := range q.BVars {
		s += "," + itoa(b[v].id)
	}
	return s
}

// relaxAssumption weakens an assumption by dropping quantified sub-formulas: a quantifier at a
// positive position becomes true, at a negative position false; if one occurs at a position
// of unknown polarity the whole assumption is dropped (nil). Only ever weakens.
func (c *TermCtx) relaxAssumption(t *Term) *Term {
	if !containsQuant(t) {
		return t
	}
	r, ok := c.relax(t, true)
	if !ok {
		return nil
	}
	return r
}

func containsQuant(t *Term) bool {
	found := false
	seen := map[int]bool{}
	var walk func(t *Term)
	walk = func(t *Term) {
		if found || seen[t.id] {
			return
		}
		seen[t.id] = true
		if t.Op == "forall" || t.Op == "exists" {
			found = true
			return
		}
		for _, a := range t.Args {
			walk(a)
		}
	}
	walk(t)
	return found
}

func (c *TermCtx) relax(t *Term, pos bool) (*Term, bool) {
	if !containsQuant(t) {
		return t, true
	}
	switch t.Op {
	case "forall", "exists":
		return c.Bool(pos), true
	case "and", "or":
		args := make([]*Term, len(t.Args))
		for i, a := range t.Args {
			r, ok := c.relax(a, pos)
			if !ok {
				return nil, false
			}
			args[i] = r
		}
		if t.Op == "and" {
			return c.And(args...), true
		}
		return c.Or(args...), true
	case "not":
		r, ok := c.relax(t.Args[0], !pos)
		if !ok {
			return nil, false
		}
		return c.Not(r), true
	case "=>":
		a, ok1 := c.relax(t.Args[0], !pos)
		b, ok2 := c.relax(t.Args[1], pos)
		if !ok1 || !ok2 {
			return nil, false
		}
		return c.Implies(a, b), true
	}
	return nil, false
}

// mayBeRow: g is syntactically an array term that can evaluate to row a
// (a itself, a read of a heap in which a was stored, or an ite with such a branch).
func mayBeRow(g, a *Term, depth int) bool {
	if g == a {
		return true
	}
	if depth > 6 {
		return false
	}
	switch g.Op {
	case "select":
		h := g.Args[0]
		for h.Op == "store" {
			if h.Args[2] == a || mayBeRow(h.Args[2], a, depth+1) {
				return true
			}
			h = h.Args[0]
		}
		if h.Op == "ite" {
			return mayBeRow(&Term{Op: "select", Args: []*Term{h.Args[1], g.Args[1]}}, a, depth+1) ||
				mayBeRow(&Term{Op: "select", Args: []*Term{h.Args[2], g.Args[1]}}, a, depth+1)
		}
	case "ite":
		return mayBeRow(g.Args[1], a, depth+1) || mayBeRow(g.Args[2], a, depth+1)
	case "store":
		return mayBeRow(g.Args[0], a, depth+1)
	}
	return false
}

// abstractToBV generalises a quantifier-free query to pure QF_BV: every sub-term whose
// operator lies outside the bit-vector/Boolean core (array reads, integer arithmetic and
// comparisons, uninterpreted functions, bridges) is replaced by a fresh constant of its sort,
// the same term always by the same constant. The abstraction forgets facts, so "unsat" for the
// abstracted query implies "unsat" for the original one (design rule "read hoisting").
func (c *TermCtx) abstractToBV(ts []*Term) []*Term {
	memo := map[int]*Term{}
	core := map[string]bool{"and": true, "or": true, "not": true, "=>": true, "ite": true, "=": true,
		"bvadd": true, "bvsub": true, "bvmul": true, "bvand": true, "bvor": true, "bvxor": true, "bvshl": true, "bvlshr": true, "bvashr": true,
		"bvudiv": true, "bvurem": true, "bvsdiv": true, "bvsrem": true, "bvnot": true, "bvneg": true,
		"bvult": true, "bvule": true, "bvslt": true, "bvsle": true, "extract": true, "zero_extend": true, "sign_extend": true, "concat": true}
	var rec func(t *Term) *Term
	rec = func(t *Term) *Term {
		if r, ok := memo[t.id]; ok {
			return r
		}
		var r *Term
		okSort := t.Sort.Kind == SBV || t.Sort.Kind == SBool
		switch {
		case t.Op == "const" && okSort:
			r = t
		case t.Op == "var" && okSort:
			r = t
		case core[t.Op] && okSort:
			coreArgs := true
			for _, a := range t.Args {
				if a.Sort.Kind != SBV && a.Sort.Kind != SBool {
					coreArgs = false
				}
			}
			if coreArgs {
				args := make([]*Term, len(t.Args))
				for i, a := range t.Args {
					args[i] = rec(a)
				}
				r = c.rebuild(t, args)
			}
		}
		if r == nil {
			if !okSort {
				return nil
			}
			r = c.Var("abs$"+itoa(t.id), t.Sort)
		}
		memo[t.id] = r
		return r
	}
	var out []*Term
	for _, t := range ts {
		if t.open || containsQuant(t) {
			out = append(out, nil)
			continue
		}
		out = append(out, rec(t))
	}
	return out
}

// coneOfInfluence keeps the assumptions that share an uninterpreted symbol with the goal,
// transitively up to depth rounds (breadth first). Dropping assumptions only weakens the
// query, so "unsat" of the filtered query implies "unsat" of the full one.
func coneOfInfluence(assumptions []*Term, goal *Term, depth int) []*Term {
	memo := map[int]map[string]bool{}
	var syms func(t *Term) map[string]bool
	syms = func(t *Term) map[string]bool {
		if m, ok := memo[t.id]; ok {
			return m
		}
		m := map[string]bool{}
		memo[t.id] = m
		if t.Op == "var" || t.Op == "app" {
			m[t.Name] = true
		}
		for _, a := range t.Args {
			for k := range syms(a) {
				m[k] = true
			}
		}
		return m
	}
	// hub symbols (heaps, long-lived arrays) occur in a large share of the assumptions and would
	// connect everything; they do not propagate relevance
	freq := map[string]int{}
	for _, a := range assumptions {
		for k := range syms(a) {
			freq[k]++
		}
	}
	hubLimit := len(assumptions) / 12
	if hubLimit < 12 {
		hubLimit = 12
	}
	S := map[string]bool{}
	for k := range syms(goal) {
		S[k] = true
	}
	in := make([]bool, len(assumptions))
	for r := 0; r < depth; r++ {
		add := map[string]bool{}
		changed := false
		for i, a := range assumptions {
			if in[i] {
				continue
			}
			hit := false
			for k := range syms(a) {
				if S[k] && (r == 0 || freq[k] <= hubLimit) {
					hit = true
					break
				}
			}
			if hit {
				in[i] = true
				changed = true
				for k := range syms(a) {
					add[k] = true
				}
			}
		}
		for k := range add {
			S[k] = true
		}
		if !changed {
			break
		}
	}
	var out []*Term
	for i, a := range assumptions {
		if in[i] {
			out = append(out, a)
		}
	}
	return out
}


// skBase / bvBase: the source-level variable name behind a skolem constant (sk$k!3) / a bound variable (k?7).
func skBase(n string) string {
	n = strings.TrimPrefix(n, "sk$")
	if i := strings.IndexAny(n, "!?"); i >= 0 {
		n = n[:i]
	}
	return n
}

func bvBase(n string) string {
	if i := strings.IndexAny(n, "!?"); i >= 0 {
		n = n[:i]
	}
	return n
}
