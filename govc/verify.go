package main

// Per-function verification: initial state, requires/ensures, frame obligations, discharge.

import (
	"fmt"
	"go/ast"
	"go/token"
	"go/types"
	"os"
	"path/filepath"
	"runtime/debug"
	"sort"
	"strings"
	"sync"
	"time"
)

type FuncReport struct {
	Name        string       `json:"name"`
	File        string       `json:"file"`
	SrcHash     string       `json:"src_hash"`
	Mode        string       `json:"mode"`
	Trusted     bool         `json:"trusted,omitempty"`
	Rejected    string       `json:"rejected,omitempty"`
	Obligations []*OblReport `json:"obligations"`
	Unrolled    []string     `json:"unrolled_loops,omitempty"`
	Inlined     []string     `json:"inlined_callees,omitempty"`
	ByContract  []string     `json:"callees_by_contract,omitempty"`
	TrustedUsed []string     `json:"trusted_callees,omitempty"`
	Intrinsics  []string     `json:"intrinsics,omitempty"`
	Notes       []string     `json:"notes,omitempty"`
	Vacuity     string       `json:"vacuity"`
	covers      []*Obligation
	Seconds     float64      `json:"seconds"`
	Clauses     int          `json:"contract_clauses"`
	obls        []*Obligation
}

type OblReport struct {
	Name    string  `json:"name"`
	Path    int     `json:"path"`
	Kind    string  `json:"kind"`
	Status  string  `json:"status"` // discharged | trivial | failed-model | failed-nomodel
	Solver  string  `json:"solver,omitempty"`
	Seconds float64 `json:"seconds,omitempty"`
	Desc    string  `json:"desc,omitempty"`
	Where   string  `json:"where,omitempty"`
	Detail  string  `json:"detail,omitempty"`
}

func newVerifier(prog *Prog) *Verifier {
	return &Verifier{prog: prog, maxPaths: 4000}
}

func (v *Verifier) reset(fi *FuncInfo, con *Contract) {
	v.eng = &Engine{C: NewTermCtx(), shapes: map[string]*Shape{}, NonNeg: v.prog.nonNeg}
	modes := map[string]bool{}
	if con != nil {
		for _, m := range strings.Fields(con.Mode) {
			modes[m] = true
		}
	}
	if modes["math"] {
		v.eng.MathInts = true
	}
	v.bigMath = modes["bigmath"]
	if modes["hybrid"] {
		v.eng.Hybrid = true
	}
	v.curFI = fi
	v.curCon = con
	v.obls = nil
	v.muted = 0
	v.reveal = map[string]bool{}
	if con != nil {
		for k := range con.Reveal {
			v.reveal[k] = true
		}
	}
	v.inlined = map[string]bool{}
	v.trustedUsed = map[string]bool{}
	v.calledByContract = map[string]bool{}
	v.intrinsicsUsed = map[string]bool{}
	if v.assumed == nil {
		v.assumed = map[string]bool{}
	}
	if v.leanRefs == nil {
		v.leanRefs = map[string]bool{}
	}
	v.unrolled = nil
	v.notes = nil
	v.globals = map[string]*Cell{}
	v.globalInit = map[string]Val{}
	v.negRefs = 0
	v.topFrame = nil
	v.frameTargets = nil
	v.nonNegSeen = nil
	v.typeCodes = nil
	v.pathSeq = map[string]int{}
	v.siteOrdByKey = map[string]int{}
	v.siteCount = map[string]int{}
}

// bindInput creates the symbolic initial value of a parameter.
func (v *Verifier) bindInput(fr *Frame, st *State, o *types.Var, con *Contract, inputSlices *[]SliceVal) {
	c := v.eng.C
	name := o.Name()
	if name == "" || name == "_" {
		name = fmt.Sprintf("p%d", len(fr.vars))
	}
	sh := v.eng.shapeOf(o.Type())
	cell := v.eng.newCell(name, sh)
	fr.vars[o] = cell
	fr.byName[name] = cell
	fr.paramCells = append(fr.paramCells, cell)
	var wf []*Term
	switch {
	case sh.Kind == ShPtr && externalStruct(o.Type()):
		// pointers to objects of external packages (big.Int, sync.Pool, ...): identity only
		pv := v.eng.freshInput(sh, name, &wf).(PtrVal)
		st.assume(c.ILe(pv.Ref, c.Inti(0)))
		if !(con != nil && con.MayNil[name]) {
			pv.Nil = c.False()
		}
		st.vals[cell] = pv
		for _, w := range wf {
			st.assume(w)
		}
		return
	}
	switch sh.Kind {
	case ShPtr:
		es := v.eng.ptrElemShape(sh)
		pcell := v.eng.newCell("*"+name, es)
		pv := v.eng.freshInput(es, "*"+name, &wf)
		st.vals[pcell] = pv
		fr.pointees = append(fr.pointees, pointee{name: name, cell: pcell, param: o})
		nilT := c.False()
		if con != nil && con.MayNil[name] {
			nilT = c.Fresh(name+"#nil", BoolSort)
		}
		st.vals[cell] = PtrVal{Sh: sh, Loc: VarLoc{pcell}, Nil: nilT}
		collectSlices(pv, inputSlices)
	case ShOpaque:
		ov := v.eng.freshInput(sh, name, &wf).(OpaqueVal)
		if !(con != nil && con.MayNil[name]) {
			ov.Nil = c.False()
		}
		st.vals[cell] = ov
	default:
		val := v.eng.freshInput(sh, name, &wf)
		st.vals[cell] = val
		collectSlices(val, inputSlices)
	}
	for _, w := range wf {
		st.assume(w)
	}
}

func collectSlices(v Val, out *[]SliceVal) {
	switch x := v.(type) {
	case SliceVal:
		*out = append(*out, x)
	case StructVal:
		for _, f := range x.F {
			collectSlices(f, out)
		}
	}
}

type pointee struct {
	name  string
	cell  *Cell
	param *types.Var
}

func (v *Verifier) verifyFunc(fi *FuncInfo) (rep *FuncReport) {
	con := fi.Contract
	rep = &FuncReport{Name: v.prog.displayName(fi), File: relPath(v.prog.root, fi.File), Mode: "bv"}
	rep.SrcHash = srcHash(v.prog.fset, fi.Decl)
	t0 := time.Now()
	defer func() { rep.Seconds = time.Since(t0).Seconds() }()
	if con == nil {
		rep.Rejected = "no contract"
		return
	}
	rep.Clauses = len(con.Requires) + len(con.Ensures)
	for _, inv := range con.LoopInv {
		rep.Clauses += len(inv)
	}
	if con.Trusted {
		rep.Trusted = true
		return
	}
	if fi.Decl.Body == nil {
		rep.Rejected = "no body"
		return
	}
	if fi.Region != "" && fi.RegionStmt == nil {
		rep.Rejected = "the statement this region contract is about no longer exists: " + strings.Join(fi.CutErr, "; ")
		return
	}
	ncases := 1
	if len(con.Split) > 0 {
		ncases = len(con.Split) + 1
	}
	for k := 0; k < ncases; k++ {
		caseIdx := -1
		if len(con.Split) > 0 {
			caseIdx = k
		}
		v.verifyCase(fi, con, rep, caseIdx)
		if rep.Rejected != "" {
			return
		}
	}
	return
}

func appendUniq(dst []string, src []string) []string {
	seen := map[string]bool{}
	for _, d := range dst {
		seen[d] = true
	}
	for _, s := range src {
		if !seen[s] {
			seen[s] = true
			dst = append(dst, s)
		}
	}
	sort.Strings(dst)
	return dst
}

// verifyCase runs the symbolic execution for one case of the contract's split
// (caseIdx -1: no split; caseIdx == len(Split): the remainder where no split condition holds).
func (v *Verifier) verifyCase(fi *FuncInfo, con *Contract, rep *FuncReport, caseIdx int) {
	v.reset(fi, con)
	if v.eng.MathInts {
		rep.Mode = "math"
	}
	if v.eng.Hybrid {
		rep.Mode = "hybrid"
	}
	v.curFn = rep.Name
	caseTag := ""
	if caseIdx >= 0 {
		if caseIdx < len(con.Split) {
			caseTag = fmt.Sprintf("{%s}", strings.ReplaceAll(con.Split[caseIdx].Text, " ", ""))
		} else {
			caseTag = "{otherwise}"
		}
	}
	v.caseTag = caseTag
	defer func() {
		if r := recover(); r != nil {
			if u, ok := r.(unsupported); ok {
				where := ""
				if u.pos.IsValid() {
					where = " at " + v.prog.fset.Position(u.pos).String()
				}
				rep.Rejected = u.msg + where
				if v.curClause != "" {
					rep.Rejected += " [while evaluating: " + truncate(v.curClause, 120) + "]"
				}
				return
			}
			stack := strings.Split(string(debug.Stack()), "\n")
			var keep []string
			for _, l := range stack {
				if strings.Contains(l, "/verif/govc/") && !strings.Contains(l, "verify.go") && len(keep) < 6 {
					keep = append(keep, strings.TrimSpace(l))
				}
			}
			rep.Rejected = fmt.Sprintf("engine panic: %v [%s]", r, strings.Join(keep, " < "))
		}
	}()
	c := v.eng.C
	fr := &Frame{fi: fi, pkg: fi.Pkg, vars: map[types.Object]*Cell{}, byName: map[string]*Cell{}, ghost: map[string]Val{}}
	st := &State{vals: map[*Cell]Val{}, heaps: map[string]*Term{}}
	sig := fi.Obj.Type().(*types.Signature)
	var inputSlices []SliceVal
	if sig.Recv() != nil {
		v.bindInput(fr, st, sig.Recv(), con, &inputSlices)
	}
	for i := 0; i < sig.Params().Len(); i++ {
		v.bindInput(fr, st, sig.Params().At(i), con, &inputSlices)
	}
	if fi.RegionStmt != nil {
		// region contract: the locals of the enclosing function that the statement uses are inputs too
		// (arbitrary values of their types; the region's requires, an ASSUMPTION, constrains them)
		lo, hi := fi.RegionStmt.Pos(), fi.RegionStmt.End()
		seen := map[*types.Var]bool{}
		var free []*types.Var
		ast.Inspect(fi.RegionStmt, func(n ast.Node) bool {
			id, ok := n.(*ast.Ident)
			if !ok {
				return true
			}
			o, ok := fi.Pkg.TypesInfo.Uses[id].(*types.Var)
			if !ok || o.IsField() || seen[o] || o.Pkg() == nil || o.Parent() == o.Pkg().Scope() {
				return true
			}
			if o.Pos() >= lo && o.Pos() < hi {
				return true // declared inside the region
			}
			if o.Pos() < fi.Decl.Pos() || o.Pos() >= fi.Decl.End() {
				return true
			}
			seen[o] = true
			if _, bound := fr.vars[o]; !bound {
				free = append(free, o)
			}
			return true
		})
		sort.Slice(free, func(a, b int) bool { return free[a].Pos() < free[b].Pos() })
		for _, o := range free {
			v.bindInput(fr, st, o, con, &inputSlices)
		}
	}
	for i := 0; i < sig.Results().Len(); i++ {
		r := sig.Results().At(i)
		cell := v.eng.newCell(r.Name(), v.eng.shapeOf(r.Type()))
		st.vals[cell] = v.eng.zeroVal(cell.Sh)
		fr.results = append(fr.results, cell)
		if r.Name() != "" && r.Name() != "_" {
			fr.vars[r] = cell
			fr.byName[r.Name()] = cell
		}
	}
	v.prescanBoxesInput(fr, st, fi, con, inputSlices)
	// record the initial values of the inputs for counterexample replay
	{
		ri := &ReplayInfo{fi: fi, eng: v.eng, v: v}
		eng := v.eng
		ri.h0 = func(key string, s *Sort) *Term { return eng.C.Var("H0$"+key, s) }
		add := func(o *types.Var, isRecv bool) {
			cell := fr.vars[o]
			if cell == nil {
				return
			}
			p := ReplayParam{Name: cell.Name, Type: o.Type(), Val: st.vals[cell], IsRecv: isRecv}
			if pv, ok := p.Val.(PtrVal); ok && pv.Loc != nil {
				if vl, ok := pv.Loc.(VarLoc); ok {
					p.Pointee = st.vals[vl.C]
				}
			}
			ri.params = append(ri.params, p)
		}
		if sig.Recv() != nil {
			add(sig.Recv(), true)
		}
		for i := 0; i < sig.Params().Len(); i++ {
			add(sig.Params().At(i), false)
		}
		v.curReplay = ri
		if fi.RegionStmt != nil {
			v.curReplay = nil // a region's inputs are locals of the enclosing function: no replay harness
		}
	}
	// case split: assume the case condition; "x == const" on an input symbol is substituted
	if caseIdx >= 0 {
		subst := map[*Term]*Term{}
		for k, cl := range con.Split {
			t := v.asBool(v.evalSpec(fr, st, cl.Expr), fi.Decl.Pos())
			if k == caseIdx {
				st.assume(t)
				if t.Op == "=" {
					a, b := t.Args[0], t.Args[1]
					if a.IsConst() {
						a, b = b, a
					}
					if a.Op == "var" && b.IsConst() {
						subst[a] = b
					}
				}
			} else if caseIdx == len(con.Split) || k < caseIdx {
				st.assume(c.Not(t))
			}
		}
		if len(subst) > 0 {
			for cell, val := range st.vals {
				st.vals[cell] = v.substVal(val, subst)
			}
		}
	}
	for _, cl := range con.Requires {
		st.assume(v.asBool(v.evalSpec(fr, st, cl.Expr), fi.Decl.Pos()))
		if fi.RegionStmt != nil {
			v.assumed[fmt.Sprintf("%s: region entry condition is ASSUMED, not proved at that program point: %s", rep.Name, cl.Text)] = true
		}
	}
	for i, cl := range con.Axioms {
		st.assume(v.asBool(v.evalSpec(fr, st, cl.Expr), fi.Decl.Pos()))
		v.leanRefs[con.AxiomRefs[i]+" ("+cl.Text+")"] = true
	}
	fr.old = st.fork()
	v.topFrame = fr
	// A cut/assume whose anchor statement no longer exists is skipped (only ever removes a lemma or
	// an assumption: obligations that needed it fail by themselves); it is reported in the notes.
	for _, e := range fi.CutErr {
		v.notes = append(v.notes, rep.Name+": unbound "+e)
	}
	if fi.RenameNote != "" {
		v.notes = append(v.notes, fi.RenameNote)
	}
	entryPC := append([]*Term{}, st.pc...)

	body := fi.Decl.Body.List
	if fi.RegionStmt != nil {
		body = []ast.Stmt{fi.RegionStmt}
	}
	outs := v.execBlock(fr, st, body)
	nret := 0
	for _, o := range outs {
		if fi.RegionStmt != nil {
			// region: `ensures` at the exits that continue after the statement (also by break/continue
			// to an enclosing loop), `returns` at the return statements inside it; no frame check
			if o.ctl == CtlDead {
				continue
			}
			nret++
			o = o.fork()
			clauses, what := con.Ensures, "ensures"
			if o.ctl == CtlReturn {
				clauses, what = con.Returns, "returns"
				fr.resultV = o.results
				if fr.resultV == nil {
					fr.resultV = []Val{}
				}
			}
			saveScope := fr.scopeAt
			fr.scopeAt = fi.RegionStmt.End() // names the statement itself declares (x, err := ...) are visible
			for _, cl := range clauses {
				t := v.asBool(v.evalSpec(fr, o, cl.Expr), fi.RegionStmt.Pos())
				v.curClauseObj = cl
				v.obligeNamed(fr, o, fmt.Sprintf("%s%d", what, cl.Ord), fi.RegionStmt.Pos(), t, "region "+what+": "+cl.Text)
				v.curClauseObj = nil
			}
			fr.scopeAt = saveScope
			fr.resultV = nil
			rp := o.retPos
			if o.ctl != CtlReturn || rp == token.NoPos {
				rp = fi.RegionStmt.End()
			}
			rep.covers = append(rep.covers, &Obligation{Name: rep.Name + caseTag + "#reach", Path: nret - 1, Func: v.curFn, Kind: "cover", Goal: c.False(), Assume: append([]*Term{}, o.pc...), ctx: v.eng.C, Pos: v.prog.fset.Position(rp), Timeout: int(rp)})
			continue
		}
		switch o.ctl {
		case CtlDead:
			continue
		case CtlNormal:
			o.results = nil
			for _, rc := range fr.results {
				o.results = append(o.results, v.eng.load(o, VarLoc{rc}))
			}
		case CtlReturn:
		default:
			panic(unsupportedf(fi.Decl.Pos(), "break/continue escaped function body"))
		}
		v.runDefers(fr, o)
		nret++
		// postconditions see the entry values of by-value parameters (Go parameters are mutable)
		o = o.fork()
		for _, pc := range fr.paramCells {
			o.vals[pc] = fr.old.vals[pc]
		}
		fr.resultV = o.results
		if fr.resultV == nil {
			fr.resultV = []Val{}
		}
		for _, cl := range con.Ensures {
			t := v.asBool(v.evalSpec(fr, o, cl.Expr), fi.Decl.Pos())
			v.curClauseObj = cl
			v.obligeNamed(fr, o, fmt.Sprintf("ensures%d", cl.Ord), fi.Decl.Pos(), t, "postcondition: "+cl.Text)
			v.curClauseObj = nil
		}
		v.checkFrame(fr, o, con)
		fr.resultV = nil
		// reachability cover: the path condition at this return must not be contradictory
		if !(caseIdx >= 0 && caseIdx == len(con.Split)) { // the remainder of an exhaustive split is legitimately infeasible
			rp := o.retPos
			if o.ctl == CtlNormal || rp == token.NoPos {
				rp = fi.Decl.End() // fell off the end
			}
			rep.covers = append(rep.covers, &Obligation{Name: rep.Name + caseTag + "#reach", Path: nret - 1, Func: v.curFn, Kind: "cover", Goal: c.False(), Assume: append([]*Term{}, o.pc...), ctx: v.eng.C, Pos: v.prog.fset.Position(rp), Timeout: int(rp)})
		}
	}
	if v.curReplay != nil {
		v.curReplay.codes = map[string]int{}
		for k, c := range v.typeCodes {
			v.curReplay.codes[k] = c
		}
	}
	rep.obls = append(rep.obls, v.obls...)
	rep.Unrolled = appendUniq(rep.Unrolled, v.unrolled)
	rep.Inlined = appendUniq(rep.Inlined, sortedKeys(v.inlined))
	rep.ByContract = appendUniq(rep.ByContract, sortedKeys(v.calledByContract))
	rep.TrustedUsed = appendUniq(rep.TrustedUsed, sortedKeys(v.trustedUsed))
	rep.Intrinsics = appendUniq(rep.Intrinsics, sortedKeys(v.intrinsicsUsed))
	rep.Notes = appendUniq(rep.Notes, v.notes)
	// vacuity: the precondition (with the case condition) must be satisfiable
	vac := v.checkVacuity(rep.Name+caseTag, entryPC)
	if caseIdx >= 0 && caseIdx == len(con.Split) && strings.HasPrefix(vac, "VACUOUS") {
		vac = "split is exhaustive (the remaining case is infeasible)"
		if rep.Vacuity != "" {
			vac = rep.Vacuity
		}
	}
	if rep.Vacuity == "" || strings.HasPrefix(vac, "VACUOUS") {
		rep.Vacuity = vac
	} else if !strings.HasPrefix(rep.Vacuity, "VACUOUS") && strings.Contains(vac, "unknown") {
		rep.Vacuity = vac
	}
	if nret == 0 && caseIdx < len(con.Split) {
		rep.Notes = append(rep.Notes, "no returning path (all paths panic or are infeasible)"+caseTag)
	}
}

func (v *Verifier) substVal(val Val, m map[*Term]*Term) Val {
	switch x := val.(type) {
	case PtrVal:
		if x.Loc != nil {
			return x
		}
	case BoxedArr:
		return x
	case Scalar:
		return Scalar{v.eng.C.Subst(x.T, m), x.Typ}
	}
	sh := shapeOfVal(val)
	if sh == nil {
		return val
	}
	ls := v.eng.leaves(val)
	ns := make([]*Term, len(ls))
	for i, l := range ls {
		ns[i] = v.eng.C.Subst(l, m)
	}
	return v.eng.valFromLeaves(sh, ns)
}

func sortedKeys(m map[string]bool) []string {
	var out []string
	for k := range m {
		out = append(out, k)
	}
	sort.Strings(out)
	return out
}

// prescanBoxesInput boxes sliced pointer-to-array params with negative (pre-existing) refs.
func (v *Verifier) prescanBoxesInput(fr *Frame, st *State, fi *FuncInfo, con *Contract, inputSlices []SliceVal) {
	c := v.eng.C
	fr.boxed = map[*types.Var]bool{}
	before := map[*Cell]bool{}
	for _, p := range fr.pointees {
		if _, ok := st.vals[p.cell].(BoxedArr); ok {
			before[p.cell] = true
		}
	}
	// mark
	v.prescanMark(fr, fi)
	// by-value array parameters that are sliced: box the parameter variable itself
	for obj, cell := range fr.vars {
		vo, isVar := obj.(*types.Var)
		if !isVar || !fr.boxed[vo] {
			continue
		}
		if av, ok := st.vals[cell].(ArrVal); ok {
			v.negRefs++
			ref := c.Inti(int64(-v.negRefs))
			st.vals[cell] = BoxedArr{Sh: av.Sh, Ref: ref}
			v.eng.heapSetRows(st, av.Sh.Elem, ref, av.L)
			if !con.MayAlias {
				for _, s := range inputSlices {
					st.assume(c.Not(c.Eq(s.Ref, ref)))
				}
			}
		}
	}
	for _, p := range fr.pointees {
		if !fr.boxed[p.param] {
			continue
		}
		av, ok := st.vals[p.cell].(ArrVal)
		if !ok {
			continue
		}
		v.negRefs++
		ref := c.Inti(int64(-v.negRefs))
		st.vals[p.cell] = BoxedArr{Sh: av.Sh, Ref: ref}
		v.eng.heapSetRows(st, av.Sh.Elem, ref, av.L)
		if !con.MayAlias {
			for _, s := range inputSlices {
				st.assume(c.Not(c.Eq(s.Ref, ref)))
			}
		}
	}
}

func (v *Verifier) prescanMark(fr *Frame, fi *FuncInfo) {
	info := fi.Pkg.TypesInfo
	mark := func(e ast.Expr) {
		e = unparen(e)
		if s, ok := e.(*ast.StarExpr); ok {
			e = unparen(s.X)
		}
		id, ok := e.(*ast.Ident)
		if !ok {
			return
		}
		if obj, _ := info.Uses[id].(*types.Var); obj != nil {
			fr.boxed[obj] = true
		}
	}
	isArrPtr := func(t types.Type) bool {
		if t == nil {
			return false
		}
		p, ok := t.Underlying().(*types.Pointer)
		if !ok {
			return false
		}
		_, ok = p.Elem().Underlying().(*types.Array)
		return ok
	}
	ast.Inspect(fi.Decl.Body, func(n ast.Node) bool {
		switch x := n.(type) {
		case *ast.SliceExpr:
			t := info.TypeOf(x.X)
			if t == nil {
				return true
			}
			switch u := t.Underlying().(type) {
			case *types.Array:
				mark(x.X)
			case *types.Pointer:
				if _, ok := u.Elem().Underlying().(*types.Array); ok {
					mark(x.X)
				}
			}
		case *ast.CallExpr:
			// pointers to arrays that escape into callees are boxed (the callee may slice them)
			for _, a := range x.Args {
				a = unparen(a)
				if isArrPtr(info.TypeOf(a)) {
					if u, ok := a.(*ast.UnaryExpr); ok && u.Op == token.AND {
						mark(u.X)
					} else {
						mark(a)
					}
				}
			}
		}
		return true
	})
}

// ---------- frame

// locPath returns the root cell and field path of a cell/field location.
func locPath(l Loc) (*Cell, []int, bool) {
	switch x := l.(type) {
	case VarLoc:
		return x.C, nil, true
	case FieldLoc:
		c, p, ok := locPath(x.Base)
		if !ok {
			return nil, nil, false
		}
		return c, append(append([]int{}, p...), x.I), true
	}
	return nil, nil, false
}

func hasPrefix(path, prefix []int) bool {
	if len(prefix) > len(path) {
		return false
	}
	for i := range prefix {
		if path[i] != prefix[i] {
			return false
		}
	}
	return true
}

func (v *Verifier) frameEq(oldV, newV Val, path []int, covered [][]int, out *[]*Term) {
	for _, cv := range covered {
		if hasPrefix(path, cv) {
			return
		}
	}
	if os, ok := oldV.(StructVal); ok {
		ns, ok2 := newV.(StructVal)
		if !ok2 {
			panic("frameEq: shape changed")
		}
		for i := range os.F {
			v.frameEq(os.F[i], ns.F[i], append(append([]int{}, path...), i), covered, out)
		}
		return
	}
	if op, ok := oldV.(PtrVal); ok && op.Loc != nil {
		np, ok2 := newV.(PtrVal)
		if !ok2 || np.Loc == nil || !sameLoc(op.Loc, np.Loc) {
			*out = append(*out, v.eng.C.False())
		}
		return
	}
	if _, ok := oldV.(BoxedArr); ok {
		return // content lives in the heap; covered by the heap frame
	}
	*out = append(*out, v.eng.valEq(oldV, newV))
}

func (v *Verifier) checkFrame(fr *Frame, st *State, con *Contract) {
	c := v.eng.C
	old := fr.old
	pos := fr.fi.Decl.Pos()
	save := fr.resultV
	fr.resultV = nil
	targets := v.resolveModifies(fr, old, con.Modifies, pos)
	fr.resultV = save
	// 1. pointee cells
	for _, p := range fr.pointees {
		var covered [][]int
		for _, t := range targets {
			if t.Loc == nil {
				continue
			}
			cell, path, ok := locPath(t.Loc)
			if ok && cell == p.cell {
				covered = append(covered, path)
			}
		}
		var eqs []*Term
		v.frameEq(old.vals[p.cell], st.vals[p.cell], nil, covered, &eqs)
		goal := c.And(eqs...)
		v.obligeNamed(fr, st, fmt.Sprintf("frame[*%s]", p.name), pos, goal, fmt.Sprintf("frame: *%s unchanged outside the modifies clause", p.name))
	}
	// 2. heaps
	var keys []string
	for k := range st.heaps {
		keys = append(keys, k)
	}
	sort.Strings(keys)
	for _, k := range keys {
		if goal := v.heapFrameFormula(st, k); goal != nil {
			v.obligeNamed(fr, st, fmt.Sprintf("frame[heap %s]", heapKeyName(k)), pos, goal, "frame: heap unchanged outside the modifies clause")
		}
	}
}

// heapFrameFormula: heap k in state st agrees with the function-entry heap everywhere
// outside the function's modifies clause (resolved in the entry state) and fresh allocations.
func (v *Verifier) heapFrameFormula(st *State, k string) *Term {
	c := v.eng.C
	fr := v.topFrame
	old := fr.old
	newH := st.heaps[k]
	oldH := old.heaps[k]
	if oldH == nil {
		oldH = c.decls["H0$"+k]
	}
	if newH == nil || oldH == nil || oldH == newH {
		return nil
	}
	if v.frameTargets == nil {
		save := fr.resultV
		fr.resultV = nil
		v.frameTargets = v.resolveModifies(fr, old, v.curCon.Modifies, fr.fi.Decl.Pos())
		fr.resultV = save
	}
	targets := v.frameTargets
	r := c.Bound("r", IntSort)
	var cov []*Term
	if strings.HasPrefix(k, "G:") {
		if k == gBigBits || k == gAtomic || k == gBigVal || k == gReleased {
			cov = append(cov, c.ILt(c.Inti(0), r)) // objects allocated during the call
		}
		if k == gChanLen || k == gChanData || k == gChanMsgs || k == gRdPos || k == gChanClosed || k == gChanDrained {
			// byte logs / read positions of local variables (bytes.Buffer declared in the function; identities
			// below -2^40, see ptrIdentity) and of objects allocated during the call (bytes.NewReader)
			cov = append(cov, c.ILe(r, c.Inti(localIDBase)), c.ILt(c.Inti(0), r))
		}
		for _, t := range targets {
			for _, gk := range t.Ghost {
				if gk == k {
					if t.Ref == nil {
						return nil // wildcard: every entry may change
					}
					cov = append(cov, c.Eq(r, t.Ref))
				}
			}
		}
		same := c.Eq(c.Select(newH, r), c.Select(oldH, r))
		return c.Forall([]*Term{r}, c.Or(append(cov, same)...))
	}
	cov = append(cov, c.ILt(c.Inti(0), r)) // fresh allocations
	if strings.HasPrefix(k, "S:") {
		j := c.Bound("j", v.eng.IdxSort())
		for _, t := range targets {
			if t.HeapElem == nil {
				continue
			}
			for _, d := range v.eng.leafDescs(t.HeapElem) {
				if sliceHeapKey(t.HeapElem, d) == k {
					if t.Any {
						return nil // wildcard: every array of this element type may change
					}
					cov = append(cov, c.And(c.Eq(r, t.Ref), v.iLe(t.Lo, j), v.iLt(j, t.Hi)))
					break
				}
			}
		}
		same := c.Eq(c.Select(c.Select(newH, r), j), c.Select(c.Select(oldH, r), j))
		return c.Forall([]*Term{r, j}, c.Or(append(cov, same)...))
	}
	for _, t := range targets {
		if t.ObjSh == nil {
			continue
		}
		for _, d := range v.eng.leafDescs(t.ObjSh) {
			if objHeapKey(t.ObjSh, d) == k {
				if t.Any {
					return nil // wildcard: every object of this type may change
				}
				cov = append(cov, c.Eq(r, t.Ref))
			}
		}
	}
	same := c.Eq(c.Select(newH, r), c.Select(oldH, r))
	return c.Forall([]*Term{r}, c.Or(append(cov, same)...))
}

func heapKeyName(k string) string {
	k = k[2:]
	if i := strings.LastIndex(k, "/"); i >= 0 {
		k = k[i+1:]
	}
	return k
}

// ---------- vacuity

func (v *Verifier) checkVacuity(name string, entryPC []*Term) string {
	if len(entryPC) == 0 {
		return "precondition trivially satisfiable"
	}
	script := v.eng.C.Script(entryPC, nil, "", false)
	res := Solve(script, "", "", "", "", workDir(), sanitize(name)+".vacuity", 5, []string{"z3-5.1", "cvc5"})
	switch res.Status {
	case "sat":
		return "precondition satisfiable (" + res.Solver + ")"
	case "unsat":
		return "VACUOUS: precondition unsatisfiable"
	}
	return "precondition satisfiability unknown (" + res.Status + ")"
}

var workDirPath string

func workDir() string {
	if workDirPath == "" {
		d, err := os.MkdirTemp("", "govc-*")
		if err != nil {
			panic(err)
		}
		workDirPath = d
	}
	return workDirPath
}

// ---------- discharge

func dischargeAll(reps []*FuncReport, timeoutS int, par int, keepDir string) {
	type job struct {
		rep *FuncReport
		o   *Obligation
		r   *OblReport
	}
	var jobs []job
	for _, rep := range reps {
		for _, o := range rep.obls {
			r := &OblReport{Name: o.Name, Path: o.Path, Kind: o.Kind, Desc: o.Desc, Where: fmt.Sprintf("%s:%d", filepath.Base(o.Pos.Filename), o.Pos.Line)}
			rep.Obligations = append(rep.Obligations, r)
			if o.Trivial {
				r.Status = "trivial"
				continue
			}
			jobs = append(jobs, job{rep, o, r})
		}
	}
	type retryJob struct {
		o       *Obligation
		r       *OblReport
		scripts [5]string
		base    string
		to      int
	}
	var retries []retryJob
	var retryMu sync.Mutex
	var wg sync.WaitGroup
	sem := make(chan struct{}, par)
	for i := range jobs {
		j := jobs[i]
		to := timeoutS
		if j.o.Timeout > 0 {
			to = j.o.Timeout
		}
		// term construction is not concurrent: build the script here, solve in parallel
		assume := j.o.Assume
		relaxedScript := ""
		if extra := j.o.ctx.preInstantiate(append(append([]*Term{}, j.o.ctx.Axioms...), assume...), j.o.Goal, instRounds, 200); len(extra) > 0 {
			assume = append(append([]*Term{}, assume...), extra...)
			j.o.Instances = len(extra)
		}
		// global facts (initial-heap axioms, bridge-term facts) - after instantiation, which may add some;
		// bridge facts only for the bridge terms of this query
		if len(j.o.ctx.Axioms) > 0 {
			assume = append(append([]*Term{}, j.o.ctx.relevantAxioms(append(append([]*Term{}, assume...), j.o.Goal))...), assume...)
		}
		hasQ := false
		var rel []*Term
		for _, a := range assume {
			r := j.o.ctx.relaxAssumption(a)
			if r != a {
				hasQ = true
			}
			if r != nil && !r.IsTrue() {
				rel = append(rel, r)
			}
		}
		if hasQ && !containsQuant(j.o.Goal) {
			relaxedScript = j.o.ctx.Script(rel, j.o.Goal, "", true)
		}
		// third variant: the relaxed query generalised to pure QF_BV (read hoisting)
		bvScript := ""
		if !containsQuant(j.o.Goal) && j.o.Goal.Sort == BoolSort {
			all := append(append([]*Term{}, rel...), j.o.Goal)
			abs := j.o.ctx.abstractToBV(all)
			if g := abs[len(abs)-1]; g != nil {
				var as []*Term
				for _, a := range abs[:len(abs)-1] {
					if a != nil {
						as = append(as, a)
					}
				}
				bvScript = j.o.ctx.Script(as, g, "", false)
			}
		}
		// fourth variant: quantifier-free query with a small, goal-directed instance set
		goalScript := ""
		coneScript := ""
		if hasQ && !containsQuant(j.o.Goal) {
			base := append(append([]*Term{}, j.o.ctx.Axioms...), j.o.Assume...)
			gdInst := j.o.ctx.preInstantiateOpt(base, j.o.Goal, 3, 24, true)
			gdRoots := append(append(append([]*Term{}, j.o.Assume...), gdInst...), j.o.Goal)
			base = append(append([]*Term{}, j.o.ctx.relevantAxioms(gdRoots)...), j.o.Assume...)
			var gd []*Term
			for _, a := range append(base, gdInst...) {
				if r := j.o.ctx.relaxAssumption(a); r != nil && !r.IsTrue() {
					gd = append(gd, r)
				}
			}
			if len(gd) < len(rel) {
				goalScript = j.o.ctx.Script(gd, j.o.Goal, "", true)
			}
			if cone := coneOfInfluence(gd, j.o.Goal, coneDepth); len(cone) < len(gd) {
				coneScript = j.o.ctx.Script(cone, j.o.Goal, "", true)
				if os.Getenv("GOVC_DEBUG") == "3" {
					fmt.Fprintf(os.Stderr, "cone %s: %d -> %d -> %d\n", j.o.Name, len(rel), len(gd), len(cone))
				}
			}
		}
		script := j.o.ctx.Script(assume, j.o.Goal, "", true)
		j.o.Script = script
		j.o.RelaxedScript = relaxedScript
		base := sanitize(fmt.Sprintf("%s.p%d", j.o.Name, j.o.Path))
		if len(base) > 150 {
			base = base[:150]
		}
		wg.Add(1)
		sem <- struct{}{}
		go func() {
			defer wg.Done()
			defer func() { <-sem }()
			res := Solve(script, relaxedScript, bvScript, goalScript, coneScript, workDir(), base, to, j.o.Solvers)
			j.o.Result = &res
			j.r.Solver = res.Solver
			j.r.Seconds = res.Seconds
			switch res.Status {
			case "unsat":
				j.r.Status = "discharged"
			case "sat":
				j.r.Status = "failed-model"
				j.r.Detail = truncate(res.Output, 4000)
			default:
				j.r.Status = "failed-nomodel"
				j.r.Detail = fmt.Sprintf("%s %v", res.Status, res.All)
				if res.Candidate != "" {
					j.r.Detail += "\ncandidate counterexample (model of the query with quantified assumptions instantiated, not confirmed):\n" + truncate(res.Candidate, 3000)
				}
				retryMu.Lock()
				retries = append(retries, retryJob{j.o, j.r, [5]string{script, relaxedScript, bvScript, goalScript, coneScript}, base, to})
				retryMu.Unlock()
			}
			if keepDir != "" && (j.r.Status != "discharged" || os.Getenv("GOVC_KEEPALL") != "") {
				os.MkdirAll(keepDir, 0o755)
				os.WriteFile(filepath.Join(keepDir, base+".smt2"), []byte(script), 0o644)
			}
		}()
	}
	wg.Wait()
	// Second chance for undecided obligations (timeout / unknown, no model): the first pass runs
	// many solver processes at once, so on a loaded machine a query that normally takes seconds can
	// miss its limit. Each is re-run with little competition and six times the limit (at least 60 s)
	// before it counts as failed. A "sat" answer is never retried.
	if len(retries) > 0 && os.Getenv("GOVC_NORETRY") == "" {
		sort.Slice(retries, func(a, b int) bool { return retries[a].base < retries[b].base })
		if len(retries) > 12 {
			retries = retries[:12] // a wholesale failure is not a load problem
		}
		var wg2 sync.WaitGroup
		sem2 := make(chan struct{}, 3)
		for i := range retries {
			rj := retries[i]
			wg2.Add(1)
			sem2 <- struct{}{}
			go func() {
				defer wg2.Done()
				defer func() { <-sem2 }()
				to := rj.to * 6
				if to < 60 {
					to = 60
				}
				res := Solve(rj.scripts[0], rj.scripts[1], rj.scripts[2], rj.scripts[3], rj.scripts[4], workDir(), rj.base+".retry", to, rj.o.Solvers)
				if res.Status == "unsat" {
					rj.o.Result = &res
					rj.r.Status = "discharged"
					rj.r.Solver = res.Solver + "+retry"
					rj.r.Seconds = res.Seconds
					rj.r.Detail = ""
				} else if res.Status == "sat" {
					rj.o.Result = &res
					rj.r.Status = "failed-model"
					rj.r.Solver = res.Solver
					rj.r.Detail = truncate(res.Output, 4000)
				}
			}()
		}
		wg2.Wait()
	}
	// reachability covers: a function (case) all of whose return paths have a refutable path
	// condition proves everything vacuously
	for _, rep := range reps {
		groups := map[string][]*Obligation{}
		for _, o := range rep.covers {
			groups[o.Name] = append(groups[o.Name], o)
		}
		for name, os := range groups {
			// The paths through the LAST return statement (normally the success return) must not all be
			// refutable; when the function has few return paths, neither may all of them together.
			last := 0
			for _, o := range os {
				if o.Timeout > last {
					last = o.Timeout
				}
			}
			var check []*Obligation
			for _, o := range os {
				if o.Timeout == last {
					check = append(check, o)
				}
			}
			if len(check) > 12 {
				check = check[len(check)-12:]
			}
			allRefuted := len(check) > 0
			for _, o := range check {
				assume := o.Assume
				if extra := o.ctx.preInstantiate(append(append([]*Term{}, o.ctx.Axioms...), assume...), o.Goal, instRounds, 200); len(extra) > 0 {
					assume = append(append([]*Term{}, assume...), extra...)
				}
				assume = append(append([]*Term{}, o.ctx.Axioms...), assume...)
				var rel []*Term
				for _, a := range assume {
					if r := o.ctx.relaxAssumption(a); r != nil && !r.IsTrue() {
						rel = append(rel, r)
					}
				}
				res := Solve(o.ctx.Script(assume, o.Goal, "", true), o.ctx.Script(rel, o.Goal, "", true), "", "", "", workDir(), sanitize(fmt.Sprintf("%s.p%d", o.Name, o.Path)), 3, nil)
				if res.Status != "unsat" {
					allRefuted = false
					break
				}
			}
			if allRefuted {
				name += fmt.Sprintf(" (return at %s:%d)", filepath.Base(check[0].Pos.Filename), check[0].Pos.Line)
			}
			if allRefuted {
				rep.Vacuity = "VACUOUS: every path to the last return of " + name + " has a contradictory path condition (inconsistent contracts, invariants or assumptions)"
			}
		}
	}
}

func truncate(s string, n int) string {
	if len(s) > n {
		return s[:n] + "…"
	}
	return s
}

func relPath(root, f string) string {
	if r, err := filepath.Rel(root, f); err == nil {
		return r
	}
	return f
}

func srcHash(fset *token.FileSet, d *ast.FuncDecl) string {
	p0, p1 := fset.Position(d.Pos()), fset.Position(d.End())
	b, err := os.ReadFile(p0.Filename)
	if err != nil || p1.Offset > len(b) {
		return ""
	}
	return fmt.Sprintf("%08x", fnv32(b[p0.Offset:p1.Offset]))
}

func fnv32(b []byte) uint32 {
	h := uint32(2166136261)
	for _, x := range b {
		h ^= uint32(x)
		h *= 16777619
	}
	return h
}

var coneDepth = func() int {
	if s := os.Getenv("GOVC_CONE"); s != "" {
		n := 0
		fmt.Sscanf(s, "%d", &n)
		if n > 0 {
			return n
		}
	}
	return 2
}()

var instRounds = func() int {
	if s := os.Getenv("GOVC_ROUNDS"); s != "" {
		n := 0
		fmt.Sscanf(s, "%d", &n)
		if n > 0 {
			return n
		}
	}
	return 4
}()

// externalStruct: *T where T is a struct type declared outside the module under verification.
func externalStruct(t types.Type) bool {
	p, ok := t.Underlying().(*types.Pointer)
	if !ok {
		return false
	}
	n, ok := p.Elem().(*types.Named)
	if !ok || n.Obj().Pkg() == nil {
		return false
	}
	if symbolicTypes[n.Obj().Pkg().Path()+"."+n.Obj().Name()] {
		return true
	}
	return !strings.HasPrefix(n.Obj().Pkg().Path(), "github.com/markkurossi/mpc")
}

// symbolicTypes: repo struct types declared `symbolic` in a contract file ("pkgpath.Type").
var symbolicTypes = map[string]bool{}
