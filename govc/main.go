package main

import (
	"encoding/json"
	"flag"
	"fmt"
	"os"
	"sort"
	"strings"
)

func main() {
	if len(os.Args) < 2 {
		fmt.Fprintln(os.Stderr, "usage: govc verify|check ...")
		os.Exit(2)
	}
	switch os.Args[1] {
	case "verify":
		cmdVerify(os.Args[2:])
	case "check":
		cmdCheck(os.Args[2:])
	case "locals":
		cmdLocals(os.Args[2:])
	default:
		fmt.Fprintln(os.Stderr, "unknown command", os.Args[1])
		os.Exit(2)
	}
}

// cmdVerify: developer entry point: verify named functions and print a report.
func cmdVerify(args []string) {
	fs := flag.NewFlagSet("verify", flag.ExitOnError)
	root := fs.String("root", "/repo", "repository root")
	pkgsF := fs.String("pkgs", "./ot,./circuit", "package patterns")
	funcs := fs.String("funcs", "", "comma separated pkgname.Key list (empty: all contracted)")
	timeout := fs.Int("timeout", 10, "per-obligation solver timeout (s)")
	keep := fs.String("keep", "", "directory to keep failed queries")
	verbose := fs.Bool("v", false, "verbose")
	jsonOut := fs.String("json", "", "write reports as JSON")
	fs.Parse(args)
	prog, err := loadProg(*root, strings.Split(*pkgsF, ","))
	if err != nil {
		fmt.Fprintln(os.Stderr, "load:", err)
		os.Exit(2)
	}
	want := map[string]bool{}
	for _, f := range strings.Split(*funcs, ",") {
		if f != "" {
			want[f] = true
		}
	}
	var fis []*FuncInfo
	for _, fi := range prog.allFuncs() {
		if fi.Contract == nil {
			continue
		}
		if len(want) > 0 && !want[prog.displayName(fi)] {
			continue
		}
		fis = append(fis, fi)
	}
	sort.Slice(fis, func(i, j int) bool { return prog.displayName(fis[i]) < prog.displayName(fis[j]) })
	v := newVerifier(prog)
	var reps []*FuncReport
	for _, fi := range fis {
		reps = append(reps, v.verifyFunc(fi))
	}
	dischargeAll(reps, *timeout, 6, *keep)
	bad := 0
	for _, r := range reps {
		n, ok, triv := 0, 0, 0
		for _, o := range r.Obligations {
			n++
			switch o.Status {
			case "discharged":
				ok++
			case "trivial":
				triv++
			}
		}
		status := "OK"
		if r.Rejected != "" {
			status = "REJECTED: " + r.Rejected
			bad++
		} else if ok+triv != n || strings.HasPrefix(r.Vacuity, "VACUOUS") {
			status = "FAILED"
			bad++
		}
		if r.Trusted {
			status = "trusted"
		}
		fmt.Printf("%-50s %3d obligations (%d solver, %d trivial) %.1fs  %s  [%s]\n", r.Name, n, ok, triv, r.Seconds, status, r.Vacuity)
		for _, o := range r.Obligations {
			if *verbose || (o.Status != "discharged" && o.Status != "trivial") {
				fmt.Printf("    %-60s p%-3d %-14s %-8s %.2fs %s\n", o.Name, o.Path, o.Status, o.Solver, o.Seconds, o.Desc)
				if o.Status != "discharged" && o.Status != "trivial" && *verbose {
					fmt.Printf("        %s\n", strings.ReplaceAll(truncate(o.Detail, 1500), "\n", "\n        "))
				}
			}
		}
	}
	if *jsonOut != "" {
		b, _ := json.MarshalIndent(reps, "", " ")
		os.WriteFile(*jsonOut, b, 0o644)
	}
	if workDirPath != "" {
		if os.Getenv("GOVC_KEEPFILES") != "" {
			fmt.Fprintln(os.Stderr, "kept solver files in", workDirPath)
		} else {
			os.RemoveAll(workDirPath)
		}
	}
	if bad > 0 {
		os.Exit(1)
	}
}
