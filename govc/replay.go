package main

// Counterexample replay on the real code.
//
// For a failed obligation with a model (sat, or the candidate model of the
// instantiated/relaxed query) the inputs of the function under contract are
// read off the model with (get-value ...), a Go test is generated that builds
// them, calls the REAL function (in-package test injected with go test -overlay,
// nothing is written to the repository) and
//   - for safety obligations (bounds, nil, divzero, panic, ...): reports REPRODUCED
//     iff the call panics;
//   - for postconditions: evaluates the violated ensures clause, translated to Go
//     (quantifiers over a bounded integer window), and reports REPRODUCED iff it is false.
// Anything outside the supported input types / clause language is "not replayable"
// and the violation is reported with no-failing-input-found.

import (
	"bytes"
	"context"
	"encoding/json"
	"fmt"
	"go/ast"
	"go/printer"
	"go/token"
	"go/types"
	"math/big"
	"os"
	"os/exec"
	"path/filepath"
	"regexp"
	"strings"
	"time"
)

type ReplayParam struct {
	Name    string
	Type    types.Type
	Val     Val   // initial value (pointers: the PtrVal; pointee in Pointee)
	Pointee Val   // initial pointee value for static pointer params
	IsRecv  bool
}

type ReplayInfo struct {
	fi     *FuncInfo
	params []ReplayParam
	eng    *Engine
	v      *Verifier
	h0     func(key string, s *Sort) *Term
	codes  map[string]int // type codes of interface payloads
}

const replayMaxElems = 32

type gvItem struct {
	term *Term
}

type replayGen struct {
	ri    *ReplayInfo
	terms []*Term
	vals  []string // filled after solving
	pos   int
	err   error
	qual  types.Qualifier
	imports map[string]bool
}

func (g *replayGen) ask(t *Term) int {
	g.terms = append(g.terms, t)
	return len(g.terms) - 1
}

// ---- phase 1: collect the terms whose values are needed

type valPlan struct {
	kind   string // scalar | struct | array | slice | ptr | iface-int | bigint | cipher | reader | nilerr | unsupported
	typ    types.Type
	idx    int // term index for scalars
	fields []*valPlan
	elems  []*valPlan
	lenIdx int
	sub    *valPlan
	tagIdx int
	cases  map[int]*valPlan
	why    string
}

func (g *replayGen) plan(v Val, t types.Type, depth int) *valPlan {
	e := g.ri.eng
	c := e.C
	if depth > 6 {
		return &valPlan{kind: "unsupported", why: "nesting too deep"}
	}
	switch x := v.(type) {
	case Scalar:
		return &valPlan{kind: "scalar", typ: t, idx: g.ask(x.T)}
	case StructVal:
		st, ok := t.Underlying().(*types.Struct)
		if !ok {
			return &valPlan{kind: "unsupported", why: "struct shape mismatch"}
		}
		p := &valPlan{kind: "struct", typ: t}
		for i, f := range x.F {
			p.fields = append(p.fields, g.plan(f, st.Field(i).Type(), depth+1))
		}
		return p
	case ArrVal:
		at := t.Underlying().(*types.Array)
		if at.Len() > 64 {
			return &valPlan{kind: "unsupported", why: "array longer than 64"}
		}
		p := &valPlan{kind: "array", typ: t}
		for i := int64(0); i < at.Len(); i++ {
			var idx *Term
			if e.IntIdx() {
				idx = c.Inti(i)
			} else {
				idx = c.BV(big.NewInt(i), 64)
			}
			p.elems = append(p.elems, g.plan(e.arrIndex(x, idx), at.Elem(), depth+1))
		}
		return p
	case BoxedArr:
		at := t.Underlying().(*types.Array)
		if at.Len() > 64 {
			return &valPlan{kind: "unsupported", why: "array longer than 64"}
		}
		p := &valPlan{kind: "array", typ: t}
		for i := int64(0); i < at.Len(); i++ {
			p.elems = append(p.elems, g.plan(g.heapElem(x.Sh.Elem, x.Ref, g.idx(i)), at.Elem(), depth+1))
		}
		return p
	case SliceVal:
		st := t.Underlying().(*types.Slice)
		p := &valPlan{kind: "slice", typ: t, lenIdx: g.ask(x.Len)}
		for i := int64(0); i < replayMaxElems; i++ {
			at := g.add(x.Off, g.idx(i))
			p.elems = append(p.elems, g.plan(g.heapElem(x.Sh.Elem, x.Ref, at), st.Elem(), depth+1))
		}
		return p
	case PtrVal:
		if isBigInt(t) && x.Loc == nil && e.IntIdx() {
			p := &valPlan{kind: "bigint", typ: t}
			bits := c.Select(g.ri.h0(gBigBits, ArraySort(IntSort, ArraySort(IntSort, BoolSort))), x.Ref)
			for i := int64(0); i < 130; i++ {
				p.elems = append(p.elems, &valPlan{kind: "scalar", typ: types.Typ[types.Bool], idx: g.ask(c.Select(bits, c.Inti(i)))})
			}
			return p
		}
		return &valPlan{kind: "unsupported", why: "pointer inside a value"}
	case OpaqueVal:
		switch typeKey(t) {
		case "crypto/cipher.Block":
			return &valPlan{kind: "cipher", typ: t}
		case "io.Reader", "io.ReadWriter":
			return &valPlan{kind: "reader", typ: t}
		case "error":
			return &valPlan{kind: "nilerr", typ: t}
		}
		if it, ok := t.Underlying().(*types.Interface); ok && it.NumMethods() == 0 {
			// interface{}: dynamic type tag + payload for the basic types seen in type switches
			p := &valPlan{kind: "iface", typ: t, tagIdx: g.ask(c.App("dyn$type", IntSort, x.ID)), cases: map[int]*valPlan{}}
			for key, code := range g.ri.codes {
				bt := basicByName(key)
				if bt == nil {
					continue
				}
				pl := g.ri.v.dynPayload(x.ID, bt)
				p.cases[code] = g.plan(pl, bt, depth+1)
			}
			return p
		}
		return &valPlan{kind: "unsupported", why: "interface/opaque value of type " + typeKey(t)}
	}
	return &valPlan{kind: "unsupported", why: fmt.Sprintf("value %T", v)}
}

func basicByName(n string) types.Type {
	for _, b := range types.Typ {
		if b.Name() == n && b.Info()&(types.IsInteger|types.IsBoolean) != 0 && b.Info()&types.IsUntyped == 0 {
			return b
		}
	}
	return nil
}

func (g *replayGen) idx(i int64) *Term {
	if g.ri.eng.IntIdx() {
		return g.ri.eng.C.Inti(i)
	}
	return g.ri.eng.C.BV(big.NewInt(i), 64)
}

func (g *replayGen) add(a, b *Term) *Term {
	if g.ri.eng.IntIdx() {
		return g.ri.eng.C.IAdd(a, b)
	}
	return g.ri.eng.C.BVAdd(a, b)
}

func (g *replayGen) heapElem(elem *Shape, ref, at *Term) Val {
	e := g.ri.eng
	ds := e.leafDescs(elem)
	ts := make([]*Term, len(ds))
	for i, d := range ds {
		h := g.ri.h0(sliceHeapKey(elem, d), e.sliceHeapSort(d))
		ts[i] = e.C.Select(e.C.Select(h, ref), at)
	}
	return e.valFromLeaves(elem, ts)
}

// ---- phase 2: render Go source from the plan and the values

func parseBV(s string) (*big.Int, bool) {
	s = strings.TrimSpace(s)
	switch {
	case strings.HasPrefix(s, "#x"):
		v, ok := new(big.Int).SetString(s[2:], 16)
		return v, ok
	case strings.HasPrefix(s, "#b"):
		v, ok := new(big.Int).SetString(s[2:], 2)
		return v, ok
	case strings.HasPrefix(s, "(_ bv"):
		f := strings.Fields(s[5:])
		v, ok := new(big.Int).SetString(f[0], 10)
		return v, ok
	case strings.HasPrefix(s, "(-"):
		v, ok := new(big.Int).SetString(strings.TrimSpace(strings.Trim(s[2:], "() ")), 10)
		if ok {
			v.Neg(v)
		}
		return v, ok
	}
	v, ok := new(big.Int).SetString(s, 10)
	return v, ok
}

func (g *replayGen) typeStr(t types.Type) string {
	return types.TypeString(t, g.qual)
}

func (g *replayGen) render(p *valPlan) string {
	switch p.kind {
	case "scalar":
		raw := g.vals[p.idx]
		b := p.typ.Underlying().(*types.Basic)
		if b.Info()&types.IsBoolean != 0 {
			if strings.TrimSpace(raw) == "true" {
				return g.typeStr(p.typ) + "(true)"
			}
			return g.typeStr(p.typ) + "(false)"
		}
		n, ok := parseBV(raw)
		if !ok {
			g.err = fmt.Errorf("cannot parse model value %q", raw)
			return "0"
		}
		w := basicWidth(b)
		if b.Info()&types.IsUnsigned == 0 && !strings.HasPrefix(strings.TrimSpace(raw), "(-") && !isDecimal(raw) {
			n = signedVal(n, w)
		}
		return fmt.Sprintf("%s(%s)", g.typeStr(p.typ), n.String())
	case "struct":
		st := p.typ.Underlying().(*types.Struct)
		var fs []string
		for i, f := range p.fields {
			fld := st.Field(i)
			if f.kind == "unsupported" {
				continue // left at its zero value (opaque fields: mutexes, pools, ...)
			}
			if !fld.Exported() && !g.samePkg(p.typ) {
				continue
			}
			fs = append(fs, fld.Name()+": "+g.render(f))
		}
		return g.typeStr(p.typ) + "{" + strings.Join(fs, ", ") + "}"
	case "array":
		var es []string
		for _, e := range p.elems {
			es = append(es, g.render(e))
		}
		return g.typeStr(p.typ) + "{" + strings.Join(es, ", ") + "}"
	case "slice":
		n, ok := parseBV(g.vals[p.lenIdx])
		if !ok || n.Sign() < 0 || n.Cmp(big.NewInt(replayMaxElems)) > 0 {
			g.err = fmt.Errorf("slice length %s outside the replayable range [0,%d]", g.vals[p.lenIdx], replayMaxElems)
			return "nil"
		}
		var es []string
		for i := 0; i < int(n.Int64()); i++ {
			es = append(es, g.render(p.elems[i]))
		}
		return g.typeStr(p.typ) + "{" + strings.Join(es, ", ") + "}"
	case "bigint":
		g.imports["math/big"] = true
		var sets []string
		for i, e := range p.elems[:128] {
			if strings.TrimSpace(g.vals[e.idx]) == "true" {
				sets = append(sets, fmt.Sprintf("z.SetBit(z, %d, 1)", i))
			}
		}
		neg := strings.TrimSpace(g.vals[p.elems[129].idx]) == "true"
		if neg {
			g.err = fmt.Errorf("negative big.Int in the model")
		}
		return "func() *big.Int { z := new(big.Int); " + strings.Join(sets, "; ") + "; return z }()"
	case "cipher":
		g.imports["crypto/aes"] = true
		return "func() cipher.Block { b, _ := aes.NewCipher(make([]byte, 16)); return b }()"
	case "reader":
		g.imports["bytes"] = true
		return "bytes.NewReader(make([]byte, 1<<16))"
	case "nilerr":
		return "error(nil)"
	case "iface":
		n, ok := parseBV(g.vals[p.tagIdx])
		if ok {
			if c, ok := p.cases[int(n.Int64())]; ok {
				return "interface{}(" + g.render(c) + ")"
			}
		}
		return "interface{}(nil)"
	}
	g.err = fmt.Errorf("not replayable: %s", p.why)
	return "nil"
}

func isDecimal(s string) bool {
	s = strings.TrimSpace(s)
	return len(s) > 0 && (s[0] >= '0' && s[0] <= '9')
}

func (g *replayGen) samePkg(t types.Type) bool {
	n, ok := t.(*types.Named)
	return ok && n.Obj().Pkg() != nil && n.Obj().Pkg() == g.ri.fi.Pkg.Types
}

// ---- contract clause -> Go

var untranslatable = regexp.MustCompile(`\b(ghost\w*|uf[A-Z]\w*|fresh|disjoint|sameSlice|suffixOf|sent|sentByte|sentMsgs|rpos|inByte|atomic|ksByte|ksPos|length|before|released|samearray|offsetOf)\b`)

func (g *replayGen) clauseToGo(e ast.Expr, params map[string]bool, resultNames map[string]int, inOld bool) (string, error) {
	var conv func(e ast.Expr, inOld bool) (string, error)
	conv = func(e ast.Expr, inOld bool) (string, error) {
		switch x := e.(type) {
		case *ast.ParenExpr:
			s, err := conv(x.X, inOld)
			return "(" + s + ")", err
		case *ast.Ident:
			if i, ok := resultNames[x.Name]; ok && !params[x.Name] {
				return fmt.Sprintf("r%d", i), nil
			}
			if strings.HasPrefix(x.Name, "result") && !params[x.Name] {
				if x.Name == "result" {
					return "r0", nil
				}
				return "r" + x.Name[6:], nil
			}
			if inOld && params[x.Name] {
				return "old_" + x.Name, nil
			}
			return x.Name, nil
		case *ast.BasicLit:
			return x.Value, nil
		case *ast.SelectorExpr:
			s, err := conv(x.X, inOld)
			return s + "." + x.Sel.Name, err
		case *ast.StarExpr:
			s, err := conv(x.X, inOld)
			return "(*" + s + ")", err
		case *ast.UnaryExpr:
			s, err := conv(x.X, inOld)
			return "(" + x.Op.String() + s + ")", err
		case *ast.BinaryExpr:
			a, err := conv(x.X, inOld)
			if err != nil {
				return "", err
			}
			b, err := conv(x.Y, inOld)
			return "(" + a + " " + x.Op.String() + " " + b + ")", err
		case *ast.IndexExpr:
			a, err := conv(x.X, inOld)
			if err != nil {
				return "", err
			}
			b, err := conv(x.Index, inOld)
			return a + "[" + b + "]", err
		case *ast.CompositeLit:
			var sb bytes.Buffer
			printer.Fprint(&sb, token.NewFileSet(), x)
			return sb.String(), nil
		case *ast.CallExpr:
			name := ""
			if id, ok := x.Fun.(*ast.Ident); ok {
				name = id.Name
			}
			var as []string
			argOld := inOld || name == "old"
			if name != "$forall" && name != "$exists" {
				for _, a := range x.Args {
					if name == "isType" || name == "asType" {
						if len(as) == 1 {
							var sb bytes.Buffer
							printer.Fprint(&sb, token.NewFileSet(), a)
							as = append(as, sb.String())
							continue
						}
					}
					s, err := conv(a, argOld)
					if err != nil {
						return "", err
					}
					as = append(as, s)
				}
			}
			switch name {
			case "$implies":
				return "(!(" + as[0] + ") || (" + as[1] + "))", nil
			case "$iff":
				return "((" + as[0] + ") == (" + as[1] + "))", nil
			case "old":
				return as[0], nil
			case "ite":
				return "govcIte(" + as[0] + ", func() any { return " + as[1] + " }, func() any { return " + as[2] + " })", fmt.Errorf("ite is not translated")
			case "bit":
				return "(((" + as[0] + ")>>uint(" + as[1] + "))&1 == 1)", nil
			case "bits":
				return "", fmt.Errorf("bits() is not translated")
			case "bigBit":
				return "((" + as[1] + ") >= 0 && (" + as[0] + ").Bit(" + as[1] + ") == 1)", nil
			case "isType":
				return "func() bool { _, ok := (" + as[0] + ").(" + as[1] + "); return ok }()", nil
			case "asType":
				return "(" + as[0] + ").(" + as[1] + ")", nil
			case "$forall", "$exists":
				n := len(x.Args) - 1
				body, err := conv(x.Args[n], inOld)
				if err != nil {
					return "", err
				}
				var vars []string
				for i := 0; i < n; i += 2 {
					if id, ok := x.Args[i+1].(*ast.Ident); !ok || id.Name != "int" {
						return "", fmt.Errorf("quantifier over a non-int variable")
					}
					vars = append(vars, x.Args[i].(*ast.Ident).Name)
				}
				if len(vars) > 2 {
					return "", fmt.Errorf("quantifier over more than two variables")
				}
				fn := "govcForall"
				if name == "$exists" {
					fn = "govcExists"
				}
				if len(vars) == 1 {
					return fmt.Sprintf("%s(func(%s int) bool { return %s })", fn, vars[0], body), nil
				}
				return fmt.Sprintf("%s(func(%s int) bool { return %s(func(%s int) bool { return %s }) })", fn, vars[0], fn, vars[1], body), nil
			}
			f, err := conv(x.Fun, inOld)
			if err != nil {
				return "", err
			}
			return f + "(" + strings.Join(as, ", ") + ")", nil
		}
		return "", fmt.Errorf("expression %T is not translated", e)
	}
	return conv(e, inOld)
}

// ---- driver

type ReplayOutcome struct {
	Attempted  bool   `json:"attempted"`
	Reproduced bool   `json:"reproduced"`
	Reason     string `json:"reason,omitempty"`
	TestFile   string `json:"test_file,omitempty"`
	Output     string `json:"output,omitempty"`
	Inputs     string `json:"inputs,omitempty"`
}

var safetyKinds = map[string]bool{"bounds": true, "slice": true, "nil": true, "divzero": true, "panic": true, "shift": true, "makelen": true, "typeassert": true, "bigbit": true}

func (ri *ReplayInfo) replay(o *Obligation, clause *Clause, dir, root string) ReplayOutcome {
	out := ReplayOutcome{}
	if o.Result == nil {
		return out
	}
	script := ""
	switch {
	case o.Result.Status == "sat":
		script = o.Script
	case o.Result.Candidate != "":
		script = o.RelaxedScript
	}
	if script == "" {
		out.Reason = "the solvers returned no model (unknown/timeout)"
		return out
	}
	isSafety := safetyKinds[o.Kind]
	if !isSafety && (o.Kind != "ensures" || clause == nil) {
		out.Reason = "obligation is about an intermediate state (" + o.Kind + "); only postconditions and safety obligations are replayed"
		return out
	}
	g := &replayGen{ri: ri, imports: map[string]bool{"testing": true, "fmt": true}}
	pkg := ri.fi.Pkg.Types
	g.qual = func(p *types.Package) string {
		if p == pkg {
			return ""
		}
		g.imports[p.Path()] = true
		return p.Name()
	}
	var plans []*valPlan
	for _, p := range ri.params {
		val := p.Val
		t := p.Type
		if pv, ok := val.(PtrVal); ok && pv.Loc != nil {
			pl := g.plan(p.Pointee, t.Underlying().(*types.Pointer).Elem(), 0)
			plans = append(plans, &valPlan{kind: "ptr", typ: t, sub: pl})
			continue
		}
		plans = append(plans, g.plan(val, t, 0))
	}
	for _, p := range plans {
		if why := firstUnsupported(p, true); why != "" {
			out.Reason = "inputs not replayable: " + why
			return out
		}
	}
	// ask the solver for the values
	var sb strings.Builder
	sb.WriteString(strings.Replace(script, "(get-model)\n", "", 1))
	if !strings.Contains(script, "produce-models") {
		sb.Reset()
		sb.WriteString("(set-option :produce-models true)\n" + strings.Replace(script, "(get-model)\n", "", 1))
	}
	// declare symbols the query itself did not mention (simplified away): their values are arbitrary
	{
		cur := sb.String()
		var decl strings.Builder
		seenV := map[string]bool{}
		var walk func(t *Term)
		walk = func(t *Term) {
			switch t.Op {
			case "var":
				if !seenV[t.Name] && !strings.Contains(cur, "(declare-fun "+smtName(t.Name)+" ") && !strings.Contains(cur, "(define-fun "+smtName(t.Name)+" ") {
					seenV[t.Name] = true
					fmt.Fprintf(&decl, "(declare-fun %s () %s)\n", smtName(t.Name), t.Sort)
				}
			case "app":
				if !seenV[t.Name] && !strings.Contains(cur, "(declare-fun "+smtName(t.Name)+" ") {
					seenV[t.Name] = true
					d := ri.eng.C.ufs[t.Name]
					var as []string
					for _, a := range d.Args {
						as = append(as, a.str)
					}
					fmt.Fprintf(&decl, "(declare-fun %s (%s) %s)\n", smtName(t.Name), strings.Join(as, " "), d.Res)
				}
			}
			for _, a := range t.Args {
				walk(a)
			}
		}
		for _, t := range g.terms {
			walk(t)
		}
		if decl.Len() > 0 {
			i := strings.Index(cur, "(check-sat)")
			sb.Reset()
			sb.WriteString(cur[:i] + decl.String() + cur[i:])
		}
	}
	sb.WriteString("(get-value (")
	for _, t := range g.terms {
		sb.WriteString(ri.eng.C.PrintFlat(t))
		sb.WriteString(" ")
	}
	sb.WriteString("))\n")
	os.MkdirAll(dir, 0o755)
	f := filepath.Join(dir, "gv.smt2")
	os.WriteFile(f, []byte(sb.String()), 0o644)
	if os.Getenv("GOVC_DEBUG") == "" {
		defer os.Remove(f)
	}
	ctx, cancel := context.WithTimeout(context.Background(), 30*time.Second)
	defer cancel()
	res, _ := exec.CommandContext(ctx, "z3-new", "-T:25", f).CombinedOutput()
	txt := string(res)
	if !strings.HasPrefix(strings.TrimSpace(txt), "sat") {
		out.Reason = "could not re-obtain the model for value extraction: " + firstLine(txt)
		return out
	}
	vals := parseGetValue(txt[strings.Index(txt, "sat")+3:])
	if len(vals) != len(g.terms) {
		out.Reason = fmt.Sprintf("value extraction returned %d values for %d terms", len(vals), len(g.terms))
		return out
	}
	g.vals = vals
	// render the test
	sig := ri.fi.Obj.Type().(*types.Signature)
	var body strings.Builder
	var argNames []string
	params := map[string]bool{}
	recvName := ""
	for i, p := range ri.params {
		name := p.Name
		params[name] = true
		pl := plans[i]
		if pl.kind == "ptr" {
			fmt.Fprintf(&body, "\t%s_v := %s\n\t%s := &%s_v\n", name, g.render(pl.sub), name, name)
			fmt.Fprintf(&body, "\told_%s_v := %s\n\told_%s := &old_%s_v\n\t_ = old_%s\n", name, g.render(pl.sub), name, name, name)
		} else {
			fmt.Fprintf(&body, "\t%s := %s\n\t_ = %s\n", name, g.render(pl), name)
			fmt.Fprintf(&body, "\told_%s := %s\n\t_ = old_%s\n", name, g.render(pl), name)
		}
		if p.IsRecv {
			recvName = name
		} else {
			argNames = append(argNames, name)
		}
	}
	if g.err != nil {
		out.Reason = g.err.Error()
		return out
	}
	nres := sig.Results().Len()
	var rs []string
	resultNames := map[string]int{}
	for i := 0; i < nres; i++ {
		rs = append(rs, fmt.Sprintf("r%d", i))
		if n := sig.Results().At(i).Name(); n != "" && n != "_" {
			resultNames[n] = i
		}
	}
	callee := ri.fi.Obj.Name()
	if recvName != "" {
		callee = recvName + "." + callee
	}
	call := callee + "(" + strings.Join(argNames, ", ") + ")"
	if sig.Variadic() {
		call = callee + "(" + strings.Join(argNames, ", ") + "...)"
	}
	clauseGo := ""
	if !isSafety {
		if untranslatable.MatchString(clause.Text) {
			out.Reason = "the violated clause refers to ghost state and cannot be evaluated on the real code"
			return out
		}
		s, err := g.clauseToGo(clause.Expr, params, resultNames, false)
		if err != nil {
			out.Reason = "the violated clause cannot be translated to Go: " + err.Error()
			return out
		}
		clauseGo = s
	}
	var src strings.Builder
	fmt.Fprintf(&src, "package %s\n\nimport (\n", pkg.Name())
	// imports are known only after rendering: collect now
	imps := []string{}
	for p := range g.imports {
		imps = append(imps, p)
	}
	for _, p := range imps {
		fmt.Fprintf(&src, "\t%q\n", p)
	}
	src.WriteString(")\n\n")
	src.WriteString("func govcForall(f func(int) bool) bool { for i := -2; i <= 300; i++ { if !f(i) { return false } }; return true }\n")
	src.WriteString("func govcExists(f func(int) bool) bool { for i := -2; i <= 300; i++ { if f(i) { return true } }; return false }\n\n")
	fmt.Fprintf(&src, "// Replay of obligation %s (%s)\nfunc TestGovcReplay(t *testing.T) {\n", o.Name, o.Desc)
	src.WriteString(body.String())
	src.WriteString("\tpanicked := true\n\tfunc() {\n\t\tdefer func() {\n\t\t\tif r := recover(); r != nil {\n\t\t\t\tfmt.Printf(\"GOVC-REPLAY: call panicked: %v\\n\", r)\n\t\t\t}\n\t\t}()\n")
	if nres > 0 {
		fmt.Fprintf(&src, "\t\t%s := %s\n", strings.Join(rs, ", "), call)
		for _, r := range rs {
			fmt.Fprintf(&src, "\t\t_ = %s\n", r)
		}
	} else {
		fmt.Fprintf(&src, "\t\t%s\n", call)
	}
	src.WriteString("\t\tpanicked = false\n")
	if !isSafety {
		fmt.Fprintf(&src, "\t\tholds := %s\n\t\tif !holds {\n\t\t\tfmt.Println(\"GOVC-REPLAY: REPRODUCED: the postcondition is false on the real code\")\n\t\t} else {\n\t\t\tfmt.Println(\"GOVC-REPLAY: NOT-REPRODUCED: the postcondition holds for these inputs\")\n\t\t}\n", clauseGo)
	}
	src.WriteString("\t}()\n")
	if isSafety {
		src.WriteString("\tif panicked {\n\t\tfmt.Println(\"GOVC-REPLAY: REPRODUCED: the real code panics on these inputs\")\n\t} else {\n\t\tfmt.Println(\"GOVC-REPLAY: NOT-REPRODUCED: no panic\")\n\t}\n")
	} else {
		src.WriteString("\tif panicked {\n\t\tfmt.Println(\"GOVC-REPLAY: REPRODUCED: the real code panics on these inputs\")\n\t}\n")
	}
	src.WriteString("}\n")
	// fix unused imports: reference fmt/testing always used; others by rendering
	testPath := filepath.Join(dir, sanitize(o.Name)+"_replay_test.go")
	os.WriteFile(testPath, []byte(src.String()), 0o644)
	out.TestFile = testPath
	out.Attempted = true
	out.Inputs = body.String()
	// run with an overlay
	pkgDir := filepath.Dir(ri.fi.File)
	ov := map[string]map[string]string{"Replace": {filepath.Join(pkgDir, "zz_govc_replay_test.go"): testPath}}
	ovb, _ := json.Marshal(ov)
	ovPath := filepath.Join(dir, "overlay.json")
	os.WriteFile(ovPath, ovb, 0o644)
	defer os.Remove(ovPath)
	rel, _ := filepath.Rel(root, pkgDir)
	ctx2, cancel2 := context.WithTimeout(context.Background(), 120*time.Second)
	defer cancel2()
	cmd := exec.CommandContext(ctx2, "go", "test", "-tags", "verif", "-overlay", ovPath, "-vet=off", "-count=1", "-timeout", "60s", "-v", "-run", "^TestGovcReplay$", "./"+rel)
	cmd.Dir = root
	cmd.Env = append(os.Environ(), "GOFLAGS=-mod=mod", "GOPROXY=off")
	ob, _ := cmd.CombinedOutput()
	out.Output = truncate(string(ob), 3000)
	out.Reproduced = strings.Contains(string(ob), "GOVC-REPLAY: REPRODUCED")
	if !out.Reproduced {
		if strings.Contains(string(ob), "NOT-REPRODUCED") {
			out.Reason = "the model's inputs do not violate the clause on the real code (the counterexample depends on uninterpreted functions or unmodelled state)"
		} else {
			out.Reason = "the replay test did not build or run: " + firstLine(strings.TrimSpace(string(ob)))
		}
	}
	return out
}

func firstUnsupported(p *valPlan, top bool) string {
	if p == nil {
		return ""
	}
	if p.kind == "unsupported" {
		return p.why
	}
	if p.kind == "struct" {
		// unsupported fields of structs are left zero; not fatal
		for _, f := range p.fields {
			if f.kind != "unsupported" {
				if w := firstUnsupported(f, false); w != "" {
					return w
				}
			}
		}
		return ""
	}
	for _, f := range p.elems {
		if w := firstUnsupported(f, false); w != "" {
			return w
		}
	}
	if p.sub != nil {
		return firstUnsupported(p.sub, false)
	}
	return ""
}

// parseGetValue parses "((t v) (t v) ...)" into the list of value strings.
func parseGetValue(s string) []string {
	s = strings.TrimSpace(s)
	if !strings.HasPrefix(s, "(") {
		return nil
	}
	// strip outer parens
	depth := 0
	var pairs []string
	start := -1
	for i := 0; i < len(s); i++ {
		switch s[i] {
		case '(':
			depth++
			if depth == 2 {
				start = i
			}
		case ')':
			if depth == 2 && start >= 0 {
				pairs = append(pairs, s[start+1:i])
				start = -1
			}
			depth--
			if depth == 0 {
				i = len(s)
			}
		case '|':
			// quoted symbol: skip to the closing bar
			j := strings.IndexByte(s[i+1:], '|')
			if j >= 0 {
				i += j + 1
			}
		}
	}
	var out []string
	for _, p := range pairs {
		out = append(out, lastSexp(strings.TrimSpace(p)))
	}
	return out
}

func lastSexp(p string) string {
	p = strings.TrimSpace(p)
	if strings.HasSuffix(p, ")") {
		depth := 0
		for i := len(p) - 1; i >= 0; i-- {
			switch p[i] {
			case ')':
				depth++
			case '(':
				depth--
				if depth == 0 {
					return p[i:]
				}
			}
		}
		return p
	}
	i := strings.LastIndexAny(p, " \t\n")
	return p[i+1:]
}

// PrintFlat prints a (closed) term without sharing.
func (c *TermCtx) PrintFlat(t *Term) string {
	switch t.Op {
	case "const":
		return constStr(t)
	case "var", "bound":
		return smtName(t.Name)
	}
	var as []string
	for _, a := range t.Args {
		as = append(as, c.PrintFlat(a))
	}
	switch t.Op {
	case "extract":
		return fmt.Sprintf("((_ extract %d %d) %s)", t.P1, t.P2, as[0])
	case "zero_extend", "sign_extend":
		return fmt.Sprintf("((_ %s %d) %s)", t.Op, t.P1, as[0])
	case "int2bv":
		return fmt.Sprintf("((_ int2bv %d) %s)", t.P1, as[0])
	case "constarr":
		return fmt.Sprintf("((as const %s) %s)", t.Sort, as[0])
	case "app":
		return fmt.Sprintf("(%s %s)", smtName(t.Name), strings.Join(as, " "))
	}
	return fmt.Sprintf("(%s %s)", t.Op, strings.Join(as, " "))
}
