package main

// SMT term DAG with hash-consing, light simplification and SMT-LIB 2 printing.

import (
	"fmt"
	"math/big"
	"sort"
	"strings"
)

type SortKind int

const (
	SBool SortKind = iota
	SBV
	SInt
	SArray
)

type Sort struct {
	Kind SortKind
	W    int
	Idx  *Sort
	Elem *Sort
	str  string
}

var sortTab = map[string]*Sort{}

func internSort(s *Sort) *Sort {
	switch s.Kind {
	case SBool:
		s.str = "Bool"
	case SInt:
		s.str = "Int"
	case SBV:
		s.str = fmt.Sprintf("(_ BitVec %d)", s.W)
	case SArray:
		s.str = fmt.Sprintf("(Array %s %s)", s.Idx.str, s.Elem.str)
	}
	if o, ok := sortTab[s.str]; ok {
		return o
	}
	sortTab[s.str] = s
	return s
}

var BoolSort = internSort(&Sort{Kind: SBool})
var IntSort = internSort(&Sort{Kind: SInt})

func BVSort(w int) *Sort { return internSort(&Sort{Kind: SBV, W: w}) }
func ArraySort(idx, elem *Sort) *Sort {
	return internSort(&Sort{Kind: SArray, Idx: idx, Elem: elem})
}
func (s *Sort) String() string { return s.str }

type Term struct {
	Op    string // "const", "var", "bound", or SMT operator / UF name
	Args  []*Term
	Sort  *Sort
	Val   *big.Int // for const (BV, Int); Bool uses Val 0/1
	Name  string   // var / bound / uf name
	P1    int      // extract hi / extend amount
	P2    int      // extract lo
	BVars []*Term  // for quantifiers
	id    int
	open  bool  // contains free bound variables
	free  []int // ids of free bound variables
}

// TermCtx owns all terms of one verification run (one function).
type TermCtx struct {
	tab        map[string]*Term
	next       int
	decls      map[string]*Term   // declared vars by name
	ufs        map[string]*UFDecl // uninterpreted functions
	ufList     []string
	fresh      map[string]int
	Axioms     []*Term // facts about the initial heap, assumed in every obligation
	bridgeSeen map[int]bool
	bridgeKey  map[int]*Term // axiom term id -> the bridge term the axiom is about
	selMemo    map[[2]int]*Term
}

type UFDecl struct {
	Name string
	Args []*Sort
	Res  *Sort
}

func NewTermCtx() *TermCtx {
	return &TermCtx{tab: map[string]*Term{}, decls: map[string]*Term{}, ufs: map[string]*UFDecl{}, fresh: map[string]int{}, bridgeSeen: map[int]bool{}, bridgeKey: map[int]*Term{}, selMemo: map[[2]int]*Term{}}
}

func (c *TermCtx) mk(t *Term) *Term {
	var sb strings.Builder
	sb.WriteString(t.Op)
	sb.WriteByte('|')
	sb.WriteString(t.Sort.str)
	sb.WriteByte('|')
	if t.Val != nil {
		sb.WriteString(t.Val.String())
	}
	sb.WriteByte('|')
	sb.WriteString(t.Name)
	fmt.Fprintf(&sb, "|%d|%d", t.P1, t.P2)
	for _, a := range t.Args {
		fmt.Fprintf(&sb, ",%d", a.id)
	}
	for _, a := range t.BVars {
		fmt.Fprintf(&sb, ";%d", a.id)
	}
	k := sb.String()
	if o, ok := c.tab[k]; ok {
		return o
	}
	c.next++
	t.id = c.next
	fv := map[int]bool{}
	if t.Op == "bound" {
		fv[t.id] = true
	}
	for _, a := range t.Args {
		for _, f := range a.free {
			fv[f] = true
		}
	}
	if t.Op == "forall" || t.Op == "exists" {
		for _, b := range t.BVars {
			delete(fv, b.id)
		}
	}
	for f := range fv {
		t.free = append(t.free, f)
	}
	sort.Ints(t.free)
	t.open = len(t.free) > 0
	c.tab[k] = t
	return t
}

// ---- leaf constructors

func (c *TermCtx) Var(name string, s *Sort) *Term {
	if t, ok := c.decls[name]; ok {
		if t.Sort != s {
			panic("redeclared " + name + " with different sort")
		}
		return t
	}
	t := c.mk(&Term{Op: "var", Name: name, Sort: s})
	c.decls[name] = t
	return t
}

func (c *TermCtx) Fresh(base string, s *Sort) *Term {
	base = sanitize(base)
	for {
		n := c.fresh[base]
		c.fresh[base] = n + 1
		name := base
		if n > 0 {
			name = fmt.Sprintf("%s!%d", base, n)
		}
		if _, ok := c.decls[name]; !ok {
			return c.Var(name, s)
		}
	}
}

func (c *TermCtx) Bound(name string, s *Sort) *Term {
	n := c.fresh["$b"]
	c.fresh["$b"] = n + 1
	return c.mk(&Term{Op: "bound", Name: fmt.Sprintf("%s?%d", sanitize(name), n), Sort: s})
}

func sanitize(s string) string {
	var sb strings.Builder
	for _, r := range s {
		if r >= 'a' && r <= 'z' || r >= 'A' && r <= 'Z' || r >= '0' && r <= '9' || r == '_' || r == '.' || r == '!' || r == '$' || r == '#' || r == '^' {
			sb.WriteRune(r)
		} else {
			sb.WriteByte('_')
		}
	}
	return sb.String()
}

func (c *TermCtx) Bool(b bool) *Term {
	v := big.NewInt(0)
	if b {
		v = big.NewInt(1)
	}
	return c.mk(&Term{Op: "const", Sort: BoolSort, Val: v})
}
func (c *TermCtx) True() *Term  { return c.Bool(true) }
func (c *TermCtx) False() *Term { return c.Bool(false) }

func (c *TermCtx) BV(v *big.Int, w int) *Term {
	m := new(big.Int).Lsh(big.NewInt(1), uint(w))
	x := new(big.Int).Mod(v, m)
	return c.mk(&Term{Op: "const", Sort: BVSort(w), Val: x})
}
func (c *TermCtx) BVu(v uint64, w int) *Term { return c.BV(new(big.Int).SetUint64(v), w) }
func (c *TermCtx) Int(v *big.Int) *Term {
	return c.mk(&Term{Op: "const", Sort: IntSort, Val: new(big.Int).Set(v)})
}
func (c *TermCtx) Inti(v int64) *Term { return c.Int(big.NewInt(v)) }

func (t *Term) IsConst() bool { return t.Op == "const" }
func (t *Term) IsTrue() bool  { return t.Op == "const" && t.Sort == BoolSort && t.Val.Sign() != 0 }
func (t *Term) IsFalse() bool { return t.Op == "const" && t.Sort == BoolSort && t.Val.Sign() == 0 }

func signedVal(v *big.Int, w int) *big.Int {
	if v.Bit(w-1) == 1 {
		return new(big.Int).Sub(v, new(big.Int).Lsh(big.NewInt(1), uint(w)))
	}
	return v
}

// ---- boolean

func (c *TermCtx) Not(a *Term) *Term {
	if a.IsTrue() {
		return c.False()
	}
	if a.IsFalse() {
		return c.True()
	}
	if a.Op == "not" {
		return a.Args[0]
	}
	return c.mk(&Term{Op: "not", Args: []*Term{a}, Sort: BoolSort})
}

func (c *TermCtx) And(as ...*Term) *Term {
	var out []*Term
	seen := map[int]bool{}
	for _, a := range as {
		if a.IsTrue() {
			continue
		}
		if a.IsFalse() {
			return a
		}
		if a.Op == "and" {
			for _, x := range a.Args {
				if !seen[x.id] {
					seen[x.id] = true
					out = append(out, x)
				}
			}
			continue
		}
		if !seen[a.id] {
			seen[a.id] = true
			out = append(out, a)
		}
	}
	if len(out) == 0 {
		return c.True()
	}
	if len(out) == 1 {
		return out[0]
	}
	return c.mk(&Term{Op: "and", Args: out, Sort: BoolSort})
}

func (c *TermCtx) Or(as ...*Term) *Term {
	var out []*Term
	seen := map[int]bool{}
	for _, a := range as {
		if a.IsFalse() {
			continue
		}
		if a.IsTrue() {
			return a
		}
		if a.Op == "or" {
			for _, x := range a.Args {
				if !seen[x.id] {
					seen[x.id] = true
					out = append(out, x)
				}
			}
			continue
		}
		if !seen[a.id] {
			seen[a.id] = true
			out = append(out, a)
		}
	}
	if len(out) == 0 {
		return c.False()
	}
	if len(out) == 1 {
		return out[0]
	}
	for _, x := range out {
		if x.Op == "not" && seen[x.Args[0].id] {
			return c.True()
		}
	}
	return c.mk(&Term{Op: "or", Args: out, Sort: BoolSort})
}

func (c *TermCtx) Implies(a, b *Term) *Term {
	if a.IsTrue() {
		return b
	}
	if a.IsFalse() || b.IsTrue() {
		return c.True()
	}
	if b.IsFalse() {
		return c.Not(a)
	}
	return c.mk(&Term{Op: "=>", Args: []*Term{a, b}, Sort: BoolSort})
}

func (c *TermCtx) Ite(cond, a, b *Term) *Term {
	if cond.IsTrue() {
		return a
	}
	if cond.IsFalse() {
		return b
	}
	if a == b {
		return a
	}
	if a.Sort != b.Sort {
		panic(fmt.Sprintf("ite sort mismatch %s vs %s", a.Sort, b.Sort))
	}
	if a.Sort == BoolSort {
		if a.IsTrue() && b.IsFalse() {
			return cond
		}
		if a.IsFalse() && b.IsTrue() {
			return c.Not(cond)
		}
	}
	return c.mk(&Term{Op: "ite", Args: []*Term{cond, a, b}, Sort: a.Sort})
}

func (c *TermCtx) Eq(a, b *Term) *Term {
	if a == b {
		return c.True()
	}
	if a.Sort != b.Sort {
		panic(fmt.Sprintf("eq sort mismatch %s vs %s (%s, %s)", a.Sort, b.Sort, c.Short(a), c.Short(b)))
	}
	if a.IsConst() && b.IsConst() {
		return c.Bool(a.Val.Cmp(b.Val) == 0)
	}
	if a.Sort == BoolSort {
		if a.IsTrue() {
			return b
		}
		if b.IsTrue() {
			return a
		}
		if a.IsFalse() {
			return c.Not(b)
		}
		if b.IsFalse() {
			return c.Not(a)
		}
	}
	if a.id > b.id {
		a, b = b, a
	}
	return c.mk(&Term{Op: "=", Args: []*Term{a, b}, Sort: BoolSort})
}

// ---- bit-vectors

func (c *TermCtx) bvBin(op string, a, b *Term) *Term {
	if a.Sort != b.Sort || a.Sort.Kind != SBV {
		panic(fmt.Sprintf("%s sort mismatch %s vs %s", op, a.Sort, b.Sort))
	}
	w := a.Sort.W
	if a.IsConst() && b.IsConst() {
		x, y := a.Val, b.Val
		r := new(big.Int)
		ok := true
		switch op {
		case "bvadd":
			r.Add(x, y)
		case "bvsub":
			r.Sub(x, y)
		case "bvmul":
			r.Mul(x, y)
		case "bvand":
			r.And(x, y)
		case "bvor":
			r.Or(x, y)
		case "bvxor":
			r.Xor(x, y)
		case "bvshl":
			if y.Cmp(big.NewInt(int64(w))) >= 0 {
				r.SetInt64(0)
			} else {
				r.Lsh(x, uint(y.Uint64()))
			}
		case "bvlshr":
			if y.Cmp(big.NewInt(int64(w))) >= 0 {
				r.SetInt64(0)
			} else {
				r.Rsh(x, uint(y.Uint64()))
			}
		case "bvudiv":
			if y.Sign() == 0 {
				ok = false
			} else {
				r.Div(x, y)
			}
		case "bvurem":
			if y.Sign() == 0 {
				ok = false
			} else {
				r.Mod(x, y)
			}
		default:
			ok = false
		}
		if ok {
			return c.BV(r, w)
		}
	}
	// identities
	zero := func(t *Term) bool { return t.IsConst() && t.Val.Sign() == 0 }
	switch op {
	case "bvadd", "bvor", "bvxor":
		if zero(a) {
			return b
		}
		if zero(b) {
			return a
		}
		if op == "bvxor" && a == b {
			return c.BVu(0, w)
		}
		if op == "bvor" && a == b {
			return a
		}
	case "bvsub", "bvshl", "bvlshr", "bvashr":
		if zero(b) {
			return a
		}
		if op == "bvsub" && a == b {
			return c.BVu(0, w)
		}
	case "bvand":
		if zero(a) {
			return a
		}
		if zero(b) {
			return b
		}
		if a == b {
			return a
		}
	case "bvmul":
		if zero(a) {
			return a
		}
		if zero(b) {
			return b
		}
		if a.IsConst() && a.Val.Cmp(big.NewInt(1)) == 0 {
			return b
		}
		if b.IsConst() && b.Val.Cmp(big.NewInt(1)) == 0 {
			return a
		}
	}
	// (x + c1) + c2 -> x + (c1+c2)
	if op == "bvadd" && b.IsConst() && a.Op == "bvadd" && a.Args[1].IsConst() {
		return c.bvBin("bvadd", a.Args[0], c.BV(new(big.Int).Add(a.Args[1].Val, b.Val), w))
	}
	if op == "bvadd" && a.IsConst() && !b.IsConst() {
		a, b = b, a
	}
	return c.mk(&Term{Op: op, Args: []*Term{a, b}, Sort: a.Sort})
}

func (c *TermCtx) BVAdd(a, b *Term) *Term  { return c.bvBin("bvadd", a, b) }
func (c *TermCtx) BVSub(a, b *Term) *Term  { return c.bvBin("bvsub", a, b) }
func (c *TermCtx) BVMul(a, b *Term) *Term  { return c.bvBin("bvmul", a, b) }
func (c *TermCtx) BVAnd(a, b *Term) *Term  { return c.bvBin("bvand", a, b) }
func (c *TermCtx) BVOr(a, b *Term) *Term   { return c.bvBin("bvor", a, b) }
func (c *TermCtx) BVXor(a, b *Term) *Term  { return c.bvBin("bvxor", a, b) }
func (c *TermCtx) BVShl(a, b *Term) *Term  { return c.bvBin("bvshl", a, b) }
func (c *TermCtx) BVLshr(a, b *Term) *Term { return c.bvBin("bvlshr", a, b) }
func (c *TermCtx) BVAshr(a, b *Term) *Term { return c.bvBin("bvashr", a, b) }
func (c *TermCtx) BVUdiv(a, b *Term) *Term { return c.bvBin("bvudiv", a, b) }
func (c *TermCtx) BVUrem(a, b *Term) *Term { return c.bvBin("bvurem", a, b) }
func (c *TermCtx) BVSdiv(a, b *Term) *Term { return c.bvBin("bvsdiv", a, b) }
func (c *TermCtx) BVSrem(a, b *Term) *Term { return c.bvBin("bvsrem", a, b) }

func (c *TermCtx) BVNot(a *Term) *Term {
	if a.IsConst() {
		m := new(big.Int).Lsh(big.NewInt(1), uint(a.Sort.W))
		m.Sub(m, big.NewInt(1))
		return c.BV(new(big.Int).Xor(a.Val, m), a.Sort.W)
	}
	if a.Op == "bvnot" {
		return a.Args[0]
	}
	return c.mk(&Term{Op: "bvnot", Args: []*Term{a}, Sort: a.Sort})
}

func (c *TermCtx) BVNeg(a *Term) *Term {
	if a.IsConst() {
		return c.BV(new(big.Int).Neg(a.Val), a.Sort.W)
	}
	return c.mk(&Term{Op: "bvneg", Args: []*Term{a}, Sort: a.Sort})
}

func (c *TermCtx) bvCmp(op string, a, b *Term) *Term {
	if a.Sort != b.Sort || a.Sort.Kind != SBV {
		panic(fmt.Sprintf("%s sort mismatch %s vs %s", op, a.Sort, b.Sort))
	}
	if a.IsConst() && b.IsConst() {
		x, y := a.Val, b.Val
		if op == "bvslt" || op == "bvsle" {
			x, y = signedVal(x, a.Sort.W), signedVal(y, a.Sort.W)
		}
		cmp := x.Cmp(y)
		switch op {
		case "bvult", "bvslt":
			return c.Bool(cmp < 0)
		default:
			return c.Bool(cmp <= 0)
		}
	}
	if a == b {
		return c.Bool(op == "bvule" || op == "bvsle")
	}
	t := c.mk(&Term{Op: op, Args: []*Term{a, b}, Sort: BoolSort})
	if (op == "bvult" || op == "bvule") && !t.open && (a.Op == "int2bv" || b.Op == "int2bv") && !c.bridgeSeen[t.id] {
		// unsigned order agrees with the order of the values (bridge fact for hybrid mode)
		c.bridgeSeen[t.id] = true
		na, nb := c.BV2Nat(a), c.BV2Nat(b)
		if op == "bvult" {
			c.addBridge(t, c.Eq(t, c.ILt(na, nb)))
		} else {
			c.addBridge(t, c.Eq(t, c.ILe(na, nb)))
		}
	}
	if (op == "bvslt" || op == "bvsle") && !t.open && (a.Op == "int2bv" || b.Op == "int2bv") && !c.bridgeSeen[t.id] {
		// signed order agrees with the order of the two's complement values (bridge fact for hybrid mode)
		c.bridgeSeen[t.id] = true
		w := a.Sort.W
		half := c.Int(new(big.Int).Lsh(big.NewInt(1), uint(w-1)))
		full := c.Int(new(big.Int).Lsh(big.NewInt(1), uint(w)))
		sval := func(x *Term) *Term {
			n := c.BV2Nat(x)
			return c.Ite(c.ILt(n, half), n, c.ISub(n, full))
		}
		sa, sb := sval(a), sval(b)
		if op == "bvslt" {
			c.addBridge(t, c.Eq(t, c.ILt(sa, sb)))
		} else {
			c.addBridge(t, c.Eq(t, c.ILe(sa, sb)))
		}
	}
	return t
}
// addBridge records a bridge axiom (a fact about one bv2nat / int2bv / comparison term): it is
// only relevant to queries in which that term occurs (relevantAxioms).
func (c *TermCtx) addBridge(key *Term, ax ...*Term) {
	for _, a := range ax {
		c.bridgeKey[a.id] = key
		c.Axioms = append(c.Axioms, a)
	}
}

// relevantAxioms drops the bridge axioms whose term does not occur in the query (roots): the
// context accumulates one per bridge term of the whole function, most of them about other paths.
// Dropping assumptions is sound.
func (c *TermCtx) relevantAxioms(roots []*Term) []*Term {
	if len(c.bridgeKey) == 0 {
		return c.Axioms
	}
	seen := map[int]bool{}
	var walk func(t *Term)
	walk = func(t *Term) {
		if seen[t.id] {
			return
		}
		seen[t.id] = true
		for _, a := range t.Args {
			walk(a)
		}
	}
	for _, r := range roots {
		if r != nil {
			walk(r)
		}
	}
	var out []*Term
	pending := []*Term{}
	for _, a := range c.Axioms {
		if _, ok := c.bridgeKey[a.id]; !ok {
			walk(a)
			out = append(out, a)
		} else {
			pending = append(pending, a)
		}
	}
	for changed := true; changed; {
		changed = false
		var rest []*Term
		for _, a := range pending {
			if seen[c.bridgeKey[a.id].id] {
				walk(a)
				out = append(out, a)
				changed = true
			} else {
				rest = append(rest, a)
			}
		}
		pending = rest
	}
	return out
}

func (c *TermCtx) BVUlt(a, b *Term) *Term { return c.bvCmp("bvult", a, b) }
func (c *TermCtx) BVUle(a, b *Term) *Term { return c.bvCmp("bvule", a, b) }
func (c *TermCtx) BVSlt(a, b *Term) *Term { return c.bvCmp("bvslt", a, b) }
func (c *TermCtx) BVSle(a, b *Term) *Term { return c.bvCmp("bvsle", a, b) }

func (c *TermCtx) Extract(hi, lo int, a *Term) *Term {
	w := a.Sort.W
	if lo == 0 && hi == w-1 {
		return a
	}
	if a.IsConst() {
		r := new(big.Int).Rsh(a.Val, uint(lo))
		return c.BV(r, hi-lo+1)
	}
	if a.Op == "extract" {
		return c.Extract(hi+a.P2, lo+a.P2, a.Args[0])
	}
	if a.Op == "zero_extend" {
		iw := a.Args[0].Sort.W
		if hi < iw {
			return c.Extract(hi, lo, a.Args[0])
		}
		if lo >= iw {
			return c.BVu(0, hi-lo+1)
		}
	}
	if a.Op == "concat" {
		lw := a.Args[1].Sort.W
		if hi < lw {
			return c.Extract(hi, lo, a.Args[1])
		}
		if lo >= lw {
			return c.Extract(hi-lw, lo-lw, a.Args[0])
		}
	}
	return c.mk(&Term{Op: "extract", Args: []*Term{a}, P1: hi, P2: lo, Sort: BVSort(hi - lo + 1)})
}

func (c *TermCtx) ZeroExt(a *Term, to int) *Term {
	w := a.Sort.W
	if to == w {
		return a
	}
	if to < w {
		return c.Extract(to-1, 0, a)
	}
	if a.IsConst() {
		return c.BV(a.Val, to)
	}
	if a.Op == "zero_extend" {
		return c.ZeroExt(a.Args[0], to)
	}
	return c.mk(&Term{Op: "zero_extend", Args: []*Term{a}, P1: to - w, Sort: BVSort(to)})
}

func (c *TermCtx) SignExt(a *Term, to int) *Term {
	w := a.Sort.W
	if to == w {
		return a
	}
	if to < w {
		return c.Extract(to-1, 0, a)
	}
	if a.IsConst() {
		return c.BV(signedVal(a.Val, w), to)
	}
	return c.mk(&Term{Op: "sign_extend", Args: []*Term{a}, P1: to - w, Sort: BVSort(to)})
}

func (c *TermCtx) Concat(hi, lo *Term) *Term {
	w := hi.Sort.W + lo.Sort.W
	if hi.IsConst() && lo.IsConst() {
		r := new(big.Int).Lsh(hi.Val, uint(lo.Sort.W))
		r.Or(r, lo.Val)
		return c.BV(r, w)
	}
	// concat(extract(h,m+1,x), extract(m,l,x)) -> extract(h,l,x)
	if hi.Op == "extract" && lo.Op == "extract" && hi.Args[0] == lo.Args[0] && hi.P2 == lo.P1+1 {
		return c.Extract(hi.P1, lo.P2, hi.Args[0])
	}
	return c.mk(&Term{Op: "concat", Args: []*Term{hi, lo}, Sort: BVSort(w)})
}

// ---- integers (math mode)

func (c *TermCtx) intBin(op string, a, b *Term) *Term {
	if a.Sort != IntSort || b.Sort != IntSort {
		panic(op + ": non-Int operands")
	}
	if a.IsConst() && b.IsConst() {
		r := new(big.Int)
		switch op {
		case "+":
			return c.Int(r.Add(a.Val, b.Val))
		case "-":
			return c.Int(r.Sub(a.Val, b.Val))
		case "*":
			return c.Int(r.Mul(a.Val, b.Val))
		}
	}
	if (op == "+" || op == "-") && b.IsConst() && b.Val.Sign() == 0 {
		return a
	}
	if op == "*" && (a.IsConst() && a.Val.Sign() == 0 || b.IsConst() && b.Val.Sign() == 0) {
		return c.Inti(0)
	}
	if op == "-" {
		if a == b {
			return c.Inti(0)
		}
		if a.Op == "+" && a.Args[0] == b {
			return a.Args[1]
		}
		if a.Op == "+" && a.Args[1] == b {
			return a.Args[0]
		}
		// (x + c1) - (x + c2), (x + c1) - x handled above; (a + k) - (a + m)
		if a.Op == "+" && b.Op == "+" && a.Args[0] == b.Args[0] {
			return c.intBin("-", a.Args[1], b.Args[1])
		}
	}
	if op == "+" {
		// (x + c1) + c2 -> x + (c1+c2)
		if b.IsConst() && a.Op == "+" && a.Args[1].IsConst() {
			return c.intBin("+", a.Args[0], c.Int(new(big.Int).Add(a.Args[1].Val, b.Val)))
		}
		if a.IsConst() && !b.IsConst() {
			a, b = b, a
			if b.Val.Sign() == 0 {
				return a
			}
		}
		// (x - y) + y -> x ; y + (x - y) -> x
		if a.Op == "-" && a.Args[1] == b {
			return a.Args[0]
		}
		if b.Op == "-" && b.Args[1] == a {
			return b.Args[0]
		}
	}
	if op == "+" && a.IsConst() && a.Val.Sign() == 0 {
		return b
	}
	return c.mk(&Term{Op: op, Args: []*Term{a, b}, Sort: IntSort})
}
func (c *TermCtx) IAdd(a, b *Term) *Term { return c.intBin("+", a, b) }
func (c *TermCtx) ISub(a, b *Term) *Term { return c.intBin("-", a, b) }
func (c *TermCtx) IMul(a, b *Term) *Term { return c.intBin("*", a, b) }
func (c *TermCtx) IDiv(a, b *Term) *Term { return c.intBin("div", a, b) }
func (c *TermCtx) IMod(a, b *Term) *Term { return c.intBin("mod", a, b) }
func (c *TermCtx) ILt(a, b *Term) *Term {
	if a.IsConst() && b.IsConst() {
		return c.Bool(a.Val.Cmp(b.Val) < 0)
	}
	return c.mk(&Term{Op: "<", Args: []*Term{a, b}, Sort: BoolSort})
}
func (c *TermCtx) ILe(a, b *Term) *Term {
	if a.IsConst() && b.IsConst() {
		return c.Bool(a.Val.Cmp(b.Val) <= 0)
	}
	if a == b {
		return c.True()
	}
	return c.mk(&Term{Op: "<=", Args: []*Term{a, b}, Sort: BoolSort})
}

// BV2Nat / Int2BV: bridges used only in hybrid mode at conversions between int and sized integers.
func (c *TermCtx) BV2Nat(a *Term) *Term {
	if a.IsConst() {
		return c.Int(a.Val)
	}
	if a.Op == "int2bv" {
		// bv2nat(int2bv(x)) = x mod 2^w; kept symbolic
	}
	if a.Op == "zero_extend" {
		return c.BV2Nat(a.Args[0])
	}
	t := c.mk(&Term{Op: "bv2nat", Args: []*Term{a}, Sort: IntSort})
	if !t.open && !c.bridgeSeen[t.id] {
		// range fact for the bridge term (stated explicitly; solvers differ in how eagerly they derive it)
		c.bridgeSeen[t.id] = true
		c.addBridge(t, c.ILe(c.Inti(0), t), c.ILt(t, c.Int(new(big.Int).Lsh(big.NewInt(1), uint(a.Sort.W)))))
		// page/slot arithmetic: for 0 <= x < 2^w, int2bv(x) >> k is x div 2^k and int2bv(x) & (2^k-1) is x mod 2^k
		if (a.Op == "bvlshr" || a.Op == "bvand") && len(a.Args) == 2 && a.Args[0].Op == "int2bv" && a.Args[1].IsConst() {
			x := a.Args[0].Args[0]
			w := a.Sort.W
			inRange := c.And(c.ILe(c.Inti(0), x), c.ILt(x, c.Int(new(big.Int).Lsh(big.NewInt(1), uint(w)))))
			k := a.Args[1].Val
			if a.Op == "bvlshr" && k.IsInt64() && k.Int64() > 0 && k.Int64() < int64(w) {
				c.addBridge(t, c.Implies(inRange, c.Eq(t, c.IDiv(x, c.Int(new(big.Int).Lsh(big.NewInt(1), uint(k.Int64())))))))
			}
			if a.Op == "bvand" {
				k1 := new(big.Int).Add(k, big.NewInt(1))
				if k1.Sign() > 0 && new(big.Int).And(k1, k).Sign() == 0 { // k = 2^j - 1
					c.addBridge(t, c.Implies(inRange, c.Eq(t, c.IMod(x, c.Int(k1)))))
				}
			}
		}
	}
	return t
}

func (c *TermCtx) Int2BV(a *Term, w int) *Term {
	if a.IsConst() {
		return c.BV(a.Val, w)
	}
	if a.Op == "bv2nat" && a.Args[0].Sort.W == w {
		return a.Args[0]
	}
	if a.Op == "bv2nat" && a.Args[0].Sort.W < w {
		return c.ZeroExt(a.Args[0], w)
	}
	t := c.mk(&Term{Op: "int2bv", Args: []*Term{a}, P1: w, Sort: BVSort(w)})
	if !t.open && !c.bridgeSeen[t.id] {
		// 0 <= x < 2^w ==> bv2nat(int2bv_w(x)) == x
		c.bridgeSeen[t.id] = true
		lim := c.Int(new(big.Int).Lsh(big.NewInt(1), uint(w)))
		back := c.mk(&Term{Op: "bv2nat", Args: []*Term{t}, Sort: IntSort})
		c.addBridge(t, c.Implies(c.And(c.ILe(c.Inti(0), a), c.ILt(a, lim)), c.Eq(back, a)))
		// int2bv is a ring homomorphism modulo 2^w
		if (a.Op == "+" || a.Op == "-") && len(a.Args) == 2 {
			l, r := c.Int2BV(a.Args[0], w), c.Int2BV(a.Args[1], w)
			if a.Op == "+" {
				c.addBridge(t, c.Eq(t, c.BVAdd(l, r)))
			} else {
				c.addBridge(t, c.Eq(t, c.BVSub(l, r)))
			}
		}
		// small values have zero high bits
		for _, k := range []int{8, 16, 32} {
			if k < w {
				small := c.Int(new(big.Int).Lsh(big.NewInt(1), uint(k)))
				c.addBridge(t, c.Implies(c.And(c.ILe(c.Inti(0), a), c.ILt(a, small)), c.Eq(c.Extract(w-1, k, t), c.BVu(0, w-k))))
			}
		}
	}
	return t
}

// ---- arrays

func (c *TermCtx) distinctConsts(a, b *Term) bool {
	return a.IsConst() && b.IsConst() && a.Val.Cmp(b.Val) != 0
}

// provablyDistinct: cheap syntactic disequality (constants, or x+c1 vs x+c2).
func (c *TermCtx) provablyDistinct(a, b *Term) bool {
	if c.distinctConsts(a, b) {
		return true
	}
	base := func(t *Term) (*Term, *big.Int) {
		if t.Op == "bvadd" && t.Args[1].IsConst() {
			return t.Args[0], t.Args[1].Val
		}
		if t.Op == "+" && t.Args[1].IsConst() {
			return t.Args[0], t.Args[1].Val
		}
		return t, big.NewInt(0)
	}
	ab, ac := base(a)
	bb, bc := base(b)
	if ab == bb && ac.Cmp(bc) != 0 {
		return true
	}
	if a.Op == "var" && b.Op == "var" && strings.HasPrefix(a.Name, "ref$") && strings.HasPrefix(b.Name, "ref$") && a != b {
		return true // fresh allocation refs are pairwise distinct
	}
	return false
}

func (c *TermCtx) Select(arr, idx *Term) *Term {
	if arr.Sort.Kind != SArray {
		panic("select on non-array " + arr.Sort.str)
	}
	if arr.Sort.Idx != idx.Sort {
		panic(fmt.Sprintf("select index sort mismatch: %s vs %s", arr.Sort.Idx, idx.Sort))
	}
	if arr.Op == "ite" && idx.IsConst() {
		key := [2]int{arr.id, idx.id}
		if r, ok := c.selMemo[key]; ok {
			return r
		}
		r := c.Ite(arr.Args[0], c.Select(arr.Args[1], idx), c.Select(arr.Args[2], idx))
		c.selMemo[key] = r
		return r
	}
	a := arr
	for {
		if a.Op == "ite" && idx.IsConst() && a != arr {
			return c.Select(a, idx)
		}
		if a.Op == "store" {
			if a.Args[1] == idx {
				return a.Args[2]
			}
			if c.provablyDistinct(a.Args[1], idx) {
				a = a.Args[0]
				continue
			}
		}
		if a.Op == "constarr" {
			return a.Args[0]
		}
		break
	}
	return c.mk(&Term{Op: "select", Args: []*Term{a, idx}, Sort: arr.Sort.Elem})
}

func (c *TermCtx) Store(arr, idx, v *Term) *Term {
	if arr.Sort.Kind != SArray || arr.Sort.Idx != idx.Sort || arr.Sort.Elem != v.Sort {
		panic(fmt.Sprintf("store sort mismatch: %s [%s] := %s", arr.Sort, idx.Sort, v.Sort))
	}
	if arr.Op == "store" && arr.Args[1] == idx {
		arr = arr.Args[0]
	}
	// store(a, i, select(a, i)) -> a
	if v.Op == "select" && v.Args[0] == arr && v.Args[1] == idx {
		return arr
	}
	return c.mk(&Term{Op: "store", Args: []*Term{arr, idx, v}, Sort: arr.Sort})
}

func (c *TermCtx) ConstArray(s *Sort, v *Term) *Term {
	return c.mk(&Term{Op: "constarr", Args: []*Term{v}, Sort: s})
}

// ---- quantifiers and UF

func (c *TermCtx) Forall(bv []*Term, body *Term) *Term {
	if body.IsTrue() {
		return body
	}
	if len(bv) == 0 {
		return body
	}
	return c.mk(&Term{Op: "forall", Args: []*Term{body}, BVars: bv, Sort: BoolSort})
}
func (c *TermCtx) Exists(bv []*Term, body *Term) *Term {
	if body.IsFalse() {
		return body
	}
	if len(bv) == 0 {
		return body
	}
	return c.mk(&Term{Op: "exists", Args: []*Term{body}, BVars: bv, Sort: BoolSort})
}

func (c *TermCtx) App(name string, res *Sort, args ...*Term) *Term {
	name = sanitize(name)
	d, ok := c.ufs[name]
	if !ok {
		d = &UFDecl{Name: name, Res: res}
		for _, a := range args {
			d.Args = append(d.Args, a.Sort)
		}
		c.ufs[name] = d
		c.ufList = append(c.ufList, name)
	} else {
		if d.Res != res || len(d.Args) != len(args) {
			panic("UF " + name + " used with different signature")
		}
		for i, a := range args {
			if d.Args[i] != a.Sort {
				panic(fmt.Sprintf("UF %s arg %d sort %s vs %s", name, i, d.Args[i], a.Sort))
			}
		}
	}
	if len(args) == 0 {
		return c.Var(name, res)
	}
	return c.mk(&Term{Op: "app", Name: name, Args: args, Sort: res})
}

// Subst replaces terms (by id) in t.
func (c *TermCtx) Subst(t *Term, m map[*Term]*Term) *Term {
	memo := map[int]*Term{}
	var rec func(t *Term) *Term
	rec = func(t *Term) *Term {
		if r, ok := m[t]; ok {
			return r
		}
		if len(t.Args) == 0 {
			return t
		}
		if r, ok := memo[t.id]; ok {
			return r
		}
		args := make([]*Term, len(t.Args))
		ch := false
		for i, a := range t.Args {
			args[i] = rec(a)
			if args[i] != a {
				ch = true
			}
		}
		r := t
		if ch {
			r = c.rebuild(t, args)
		}
		memo[t.id] = r
		return r
	}
	return rec(t)
}

func (c *TermCtx) rebuild(t *Term, a []*Term) *Term {
	switch t.Op {
	case "not":
		return c.Not(a[0])
	case "and":
		return c.And(a...)
	case "or":
		return c.Or(a...)
	case "=>":
		return c.Implies(a[0], a[1])
	case "ite":
		return c.Ite(a[0], a[1], a[2])
	case "=":
		return c.Eq(a[0], a[1])
	case "bvadd", "bvsub", "bvmul", "bvand", "bvor", "bvxor", "bvshl", "bvlshr", "bvashr", "bvudiv", "bvurem", "bvsdiv", "bvsrem":
		return c.bvBin(t.Op, a[0], a[1])
	case "bvnot":
		return c.BVNot(a[0])
	case "bvneg":
		return c.BVNeg(a[0])
	case "bvult", "bvule", "bvslt", "bvsle":
		return c.bvCmp(t.Op, a[0], a[1])
	case "extract":
		return c.Extract(t.P1, t.P2, a[0])
	case "zero_extend":
		return c.ZeroExt(a[0], t.Sort.W)
	case "sign_extend":
		return c.SignExt(a[0], t.Sort.W)
	case "concat":
		return c.Concat(a[0], a[1])
	case "+", "-", "*", "div", "mod":
		return c.intBin(t.Op, a[0], a[1])
	case "<":
		return c.ILt(a[0], a[1])
	case "<=":
		return c.ILe(a[0], a[1])
	case "bv2nat":
		return c.BV2Nat(a[0])
	case "int2bv":
		return c.Int2BV(a[0], t.P1)
	case "select":
		return c.Select(a[0], a[1])
	case "store":
		return c.Store(a[0], a[1], a[2])
	case "constarr":
		return c.ConstArray(t.Sort, a[0])
	case "forall":
		return c.Forall(t.BVars, a[0])
	case "exists":
		return c.Exists(t.BVars, a[0])
	case "app":
		return c.App(t.Name, t.Sort, a...)
	}
	panic("rebuild: " + t.Op)
}

// ---- printing

func smtName(n string) string {
	return "|" + n + "|"
}

func constStr(t *Term) string {
	switch t.Sort.Kind {
	case SBool:
		if t.Val.Sign() != 0 {
			return "true"
		}
		return "false"
	case SInt:
		if t.Val.Sign() < 0 {
			return "(- " + new(big.Int).Neg(t.Val).String() + ")"
		}
		return t.Val.String()
	case SBV:
		if t.Sort.W%4 == 0 {
			return fmt.Sprintf("#x%0*s", t.Sort.W/4, t.Val.Text(16))
		}
		return fmt.Sprintf("(_ bv%s %d)", t.Val.String(), t.Sort.W)
	}
	panic("const sort")
}

// Script renders "assumptions and not goal" as a complete SMT-LIB script.
// Shared closed sub-terms become define-funs so the text is a DAG.
func (c *TermCtx) Script(assumptions []*Term, goal *Term, logicHint string, wantModel bool) string {
	roots := append([]*Term{}, assumptions...)
	if goal != nil {
		roots = append(roots, goal)
	}
	// reference counts
	refs := map[int]int{}
	var order []*Term
	visited := map[int]bool{}
	var walk func(t *Term)
	walk = func(t *Term) {
		refs[t.id]++
		if visited[t.id] {
			return
		}
		visited[t.id] = true
		for _, a := range t.Args {
			walk(a)
		}
		order = append(order, t) // post-order: children first
	}
	for _, r := range roots {
		walk(r)
	}
	named := map[int]string{}
	var sb strings.Builder
	if wantModel {
		sb.WriteString("(set-option :produce-models true)\n")
	}
	if logicHint != "" {
		fmt.Fprintf(&sb, "(set-logic %s)\n", logicHint)
	}
	// declarations
	usedVars := map[string]*Term{}
	usedUF := map[string]bool{}
	for _, t := range order {
		if t.Op == "var" {
			usedVars[t.Name] = t
		}
		if t.Op == "app" {
			usedUF[t.Name] = true
		}
	}
	var vn []string
	for n := range usedVars {
		vn = append(vn, n)
	}
	sort.Strings(vn)
	for _, n := range vn {
		fmt.Fprintf(&sb, "(declare-fun %s () %s)\n", smtName(n), usedVars[n].Sort)
	}
	for _, n := range c.ufList {
		if !usedUF[n] {
			continue
		}
		d := c.ufs[n]
		var as []string
		for _, a := range d.Args {
			as = append(as, a.str)
		}
		fmt.Fprintf(&sb, "(declare-fun %s (%s) %s)\n", smtName(n), strings.Join(as, " "), d.Res)
	}
	var pr func(t *Term) string
	pr = func(t *Term) string {
		if n, ok := named[t.id]; ok {
			return n
		}
		switch t.Op {
		case "const":
			return constStr(t)
		case "var", "bound":
			return smtName(t.Name)
		}
		var as []string
		for _, a := range t.Args {
			as = append(as, pr(a))
		}
		switch t.Op {
		case "extract":
			return fmt.Sprintf("((_ extract %d %d) %s)", t.P1, t.P2, as[0])
		case "zero_extend", "sign_extend":
			return fmt.Sprintf("((_ %s %d) %s)", t.Op, t.P1, as[0])
		case "int2bv":
			return fmt.Sprintf("((_ int2bv %d) %s)", t.P1, as[0])
		case "constarr":
			return fmt.Sprintf("((as const %s) %s)", t.Sort, as[0])
		case "forall", "exists":
			var bs []string
			for _, b := range t.BVars {
				bs = append(bs, fmt.Sprintf("(%s %s)", smtName(b.Name), b.Sort))
			}
			body := as[0]
			if t.Op == "forall" {
				if pats := c.choosePatterns(t); len(pats) > 0 {
					var ps []string
					for _, mp := range pats {
						var one []string
						for _, p := range mp {
							one = append(one, pr(p))
						}
						ps = append(ps, ":pattern ("+strings.Join(one, " ")+")")
					}
					body = fmt.Sprintf("(! %s %s)", body, strings.Join(ps, " "))
				}
			}
			return fmt.Sprintf("(%s (%s) %s)", t.Op, strings.Join(bs, " "), body)
		case "app":
			return fmt.Sprintf("(%s %s)", smtName(t.Name), strings.Join(as, " "))
		}
		return fmt.Sprintf("(%s %s)", t.Op, strings.Join(as, " "))
	}
	for _, t := range order {
		if t.open || len(t.Args) == 0 {
			continue
		}
		if refs[t.id] > 1 {
			s := pr(t)
			name := fmt.Sprintf("t%d", t.id)
			fmt.Fprintf(&sb, "(define-fun %s () %s %s)\n", name, t.Sort, s)
			named[t.id] = name
		}
	}
	for _, a := range assumptions {
		fmt.Fprintf(&sb, "(assert %s)\n", pr(a))
	}
	if goal != nil {
		fmt.Fprintf(&sb, "(assert (not %s))\n", pr(goal))
	}
	sb.WriteString("(check-sat)\n")
	if wantModel {
		sb.WriteString("(get-model)\n")
	}
	return sb.String()
}

// Short renders a term compactly for messages.
func (c *TermCtx) Short(t *Term) string {
	var pr func(t *Term, d int) string
	pr = func(t *Term, d int) string {
		switch t.Op {
		case "const":
			return constStr(t)
		case "var", "bound":
			return t.Name
		}
		if d > 6 {
			return "…"
		}
		var as []string
		for _, a := range t.Args {
			as = append(as, pr(a, d+1))
		}
		op := t.Op
		if op == "app" {
			op = t.Name
		}
		if op == "extract" {
			op = fmt.Sprintf("extract[%d:%d]", t.P1, t.P2)
		}
		return "(" + op + " " + strings.Join(as, " ") + ")"
	}
	return pr(t, 0)
}

// HasQuantOrUF reports features used to pick a logic.
func termFeatures(ts []*Term) (quant, uf, arrays, ints, bvs bool) {
	seen := map[int]bool{}
	var walk func(t *Term)
	walk = func(t *Term) {
		if seen[t.id] {
			return
		}
		seen[t.id] = true
		switch t.Op {
		case "forall", "exists":
			quant = true
		case "app":
			uf = true
		}
		switch t.Sort.Kind {
		case SArray:
			arrays = true
		case SInt:
			ints = true
		case SBV:
			bvs = true
		}
		for _, a := range t.Args {
			walk(a)
		}
	}
	for _, t := range ts {
		walk(t)
	}
	return
}

// choosePatterns picks E-matching triggers for a universal quantifier: minimal select / UF
// sub-terms over the bound variables, dropping groups that would cause matching loops
// (the same head applied to several different index terms, e.g. f(i) and f(i+1)).
// Returns alternative (multi-)patterns; nil lets the solver choose.
func (c *TermCtx) choosePatterns(q *Term) [][]*Term {
	own := map[int]bool{}
	for _, b := range q.BVars {
		own[b.id] = true
	}
	usesOwn := func(t *Term) map[int]bool {
		m := map[int]bool{}
		for _, f := range t.free {
			if own[f] {
				m[f] = true
			}
		}
		return m
	}
	var cands []*Term
	seen := map[int]bool{}
	var walk func(t *Term)
	walk = func(t *Term) {
		if seen[t.id] || !t.open {
			return
		}
		seen[t.id] = true
		if t.Op == "forall" || t.Op == "exists" {
			return // do not look inside nested quantifiers
		}
		for _, a := range t.Args {
			walk(a)
		}
		if (t.Op == "select" || t.Op == "app") && len(usesOwn(t)) > 0 && !hasBoolStructure(t) {
			// all free bound variables must be ours
			ok := true
			for _, f := range t.free {
				if !own[f] {
					ok = false
				}
			}
			if ok {
				cands = append(cands, t)
			}
		}
	}
	walk(q.Args[0])
	if len(cands) == 0 {
		return nil
	}
	// loop filter: group by head and the arguments that do not mention bound variables
	var groupKey func(t *Term) string
	groupKey = func(t *Term) string {
		var sb strings.Builder
		sb.WriteString(t.Op + ":" + t.Name + "(")
		for i, a := range t.Args {
			switch {
			case !a.open:
				fmt.Fprintf(&sb, "%d:#%d,", i, a.id)
			case a.Op == "select" || a.Op == "app":
				fmt.Fprintf(&sb, "%d:%s,", i, groupKey(a))
			default:
				fmt.Fprintf(&sb, "%d:*,", i)
			}
		}
		sb.WriteString(")")
		return sb.String()
	}
	groups := map[string][]*Term{}
	for _, t := range cands {
		k := groupKey(t)
		groups[k] = append(groups[k], t)
	}
	var filtered []*Term
	for _, t := range cands {
		if len(groups[groupKey(t)]) == 1 {
			filtered = append(filtered, t)
		}
	}
	if len(filtered) == 0 {
		return nil
	}
	// minimal candidates: no other candidate as a proper sub-term
	isSub := func(small, big *Term) bool {
		found := false
		vis := map[int]bool{}
		var rec func(t *Term)
		rec = func(t *Term) {
			if found || vis[t.id] {
				return
			}
			vis[t.id] = true
			for _, a := range t.Args {
				if a == small {
					found = true
					return
				}
				rec(a)
			}
		}
		rec(big)
		return found
	}
	var minimal []*Term
	for _, t := range filtered {
		min := true
		for _, o := range filtered {
			if o != t && isSub(o, t) && len(usesOwn(o)) >= len(usesOwn(t)) {
				min = false
				break
			}
		}
		if min {
			minimal = append(minimal, t)
		}
	}
	var out [][]*Term
	var partial []*Term
	for _, t := range minimal {
		if len(usesOwn(t)) == len(own) {
			out = append(out, []*Term{t})
		} else {
			partial = append(partial, t)
		}
	}
	if len(out) > 6 {
		out = out[:6]
	}
	if len(out) == 0 && len(partial) > 0 {
		// one greedy multi-pattern covering all variables
		covered := map[int]bool{}
		var mp []*Term
		for len(covered) < len(own) {
			best, gain := (*Term)(nil), 0
			for _, t := range partial {
				g := 0
				for f := range usesOwn(t) {
					if !covered[f] {
						g++
					}
				}
				if g > gain {
					best, gain = t, g
				}
			}
			if best == nil {
				return nil
			}
			mp = append(mp, best)
			for f := range usesOwn(best) {
				covered[f] = true
			}
		}
		out = append(out, mp)
	}
	return out
}

// hasBoolStructure: the term contains connectives / ite / comparisons (not allowed in patterns).
func hasBoolStructure(t *Term) bool {
	found := false
	seen := map[int]bool{}
	var walk func(t *Term)
	walk = func(t *Term) {
		if found || seen[t.id] || !t.open {
			return // closed sub-terms are printed as named constants: their structure does not matter
		}
		seen[t.id] = true
		switch t.Op {
		case "ite", "not", "and", "or", "=>", "=", "<", "<=", "bvult", "bvule", "bvslt", "bvsle", "forall", "exists":
			found = true
			return
		}
		for _, a := range t.Args {
			walk(a)
		}
	}
	walk(t)
	return found
}
