package main

// Program loading, function table, contract binding, trusted intrinsics.

import (
	"fmt"
	"go/ast"
	"go/token"
	"go/types"
	"os"
	"path/filepath"
	"regexp"
	"sort"
	"strings"

	"golang.org/x/tools/go/packages"
)

type FuncInfo struct {
	Decl     *ast.FuncDecl
	Obj      *types.Func
	Pkg      *packages.Package
	Contract *Contract
	IsSpec   bool // declared in a zz_verif_contracts.go file with a spec* name
	LoopOrd  map[ast.Node]int
	File     string
	CutAt    map[ast.Stmt][]*Cut
	CutErr   []string
	Rename   map[string]string // contract identifier -> current name of a renamed local (see locals.go)
	Region     string   // region contract: name after '#'
	RegionStmt ast.Stmt // the statement the region contract is about
	RenameNote string
}

type Prog struct {
	fset           *token.FileSet
	pkgs           map[string]*packages.Package
	funcs          map[*types.Func]*FuncInfo
	regions        []*FuncInfo // region contracts: one pseudo function per contracted statement
	byKey          map[string]*FuncInfo // pkgpath + "." + Key
	contracts      map[string]*Contract // pkgpath.Key -> contract (incl. trusted externals by full name)
	lemmas         []*Contract
	defs           map[string]*Contract
	nonNeg         map[string]bool
	ifaceContracts map[string]*Contract
	root           string
}

const contractFile = "zz_verif_contracts.go"

func loadProg(root string, patterns []string) (*Prog, error) {
	cfg := &packages.Config{Mode: packages.LoadAllSyntax | packages.NeedModule, Dir: root, BuildFlags: []string{"-tags=verif"},
		Env: append(os.Environ(), "GOFLAGS=-mod=mod", "GOPROXY=off")}
	pkgs, err := packages.Load(cfg, patterns...)
	if err != nil {
		return nil, err
	}
	p := &Prog{pkgs: map[string]*packages.Package{}, funcs: map[*types.Func]*FuncInfo{}, byKey: map[string]*FuncInfo{}, contracts: map[string]*Contract{}, defs: map[string]*Contract{}, nonNeg: map[string]bool{}, ifaceContracts: map[string]*Contract{}, root: root}
	var errs []string
	packages.Visit(pkgs, nil, func(pk *packages.Package) {
		p.pkgs[pk.PkgPath] = pk
		if p.fset == nil {
			p.fset = pk.Fset
		}
		for _, e := range pk.Errors {
			errs = append(errs, e.Error())
		}
	})
	if len(errs) > 0 {
		return nil, fmt.Errorf("load errors:\n%s", strings.Join(errs, "\n"))
	}
	for _, pk := range p.pkgs {
		if pk.TypesInfo == nil {
			continue
		}
		inRepo := pk.Module != nil && pk.Module.Main
		for _, f := range pk.Syntax {
			fname := p.fset.Position(f.Pos()).Filename
			isContractFile := filepath.Base(fname) == contractFile
			for _, d := range f.Decls {
				fd, ok := d.(*ast.FuncDecl)
				if !ok {
					continue
				}
				obj, _ := pk.TypesInfo.Defs[fd.Name].(*types.Func)
				if obj == nil {
					continue
				}
				fi := &FuncInfo{Decl: fd, Obj: obj, Pkg: pk, File: fname, LoopOrd: map[ast.Node]int{}}
				fi.IsSpec = isContractFile && strings.HasPrefix(fd.Name.Name, "spec")
				if fd.Body != nil {
					n := 0
					ast.Inspect(fd.Body, func(nd ast.Node) bool {
						switch nd.(type) {
						case *ast.ForStmt, *ast.RangeStmt:
							fi.LoopOrd[nd] = n
							n++
						case *ast.FuncLit:
							return false
						}
						return true
					})
				}
				p.funcs[obj] = fi
				p.byKey[pk.PkgPath+"."+funcKey(obj)] = fi
			}
			if isContractFile && inRepo {
				cs, err := parseContractComments(p.fset, f, pk.PkgPath)
				if err != nil {
					return nil, err
				}
				for _, c := range cs {
					if c.Key == "$nonneg" {
						for _, f := range c.ModText {
							p.nonNeg[pk.PkgPath+"."+f] = true
						}
						continue
					}
					if c.Key == "$symbolic" {
						for _, f := range c.ModText {
							symbolicTypes[pk.PkgPath+"."+f] = true
						}
						continue
					}
					if c.IsDef {
						p.defs[pk.PkgPath+"."+c.Key] = c
						continue
					}
					if c.Lemma {
						p.lemmas = append(p.lemmas, c)
						continue
					}
					k := pk.PkgPath + "." + c.Key
					if _, dup := p.contracts[k]; dup {
						return nil, fmt.Errorf("%s: duplicate contract for %s", c.Src, k)
					}
					p.contracts[k] = c
				}
			}
		}
	}
	// bind
	var missing []string
	for k, c := range p.contracts {
		if i := strings.Index(k, "#"); i > 0 {
			// region contract "Func#name": a statement of Func verified on its own, its free variables
			// arbitrary values constrained by the (assumed) requires
			base := p.byKey[k[:i]]
			if base == nil || base.Decl.Body == nil {
				missing = append(missing, fmt.Sprintf("%s (%s)", k, c.Src))
				continue
			}
			rfi := &FuncInfo{Decl: base.Decl, Obj: base.Obj, Pkg: base.Pkg, File: base.File, LoopOrd: map[ast.Node]int{}, Contract: c, Region: k[i+1:]}
			if err := p.bindRegion(rfi); err != nil {
				rfi.CutErr = append(rfi.CutErr, err.Error())
			}
			p.regions = append(p.regions, rfi)
			continue
		}
		fi := p.byKey[k]
		if fi == nil {
			// an interface method: a trusted contract on the interface
			if full := p.ifaceMethodFullName(c); full != "" {
				if !c.Trusted {
					return nil, fmt.Errorf("%s: contract on interface method %s must be marked trusted", c.Src, c.Key)
				}
				p.ifaceContracts[full] = c
				continue
			}
			missing = append(missing, fmt.Sprintf("%s (%s)", k, c.Src))
			continue
		}
		fi.Contract = c
	}
	if len(missing) > 0 {
		sort.Strings(missing)
		return nil, fmt.Errorf("contracts for unknown functions: %s", strings.Join(missing, ", "))
	}
	p.applyRenames()
	for _, fi := range p.allFuncs() {
		if fi.Contract != nil && len(fi.Contract.Cuts)+len(fi.Contract.Assumes) > 0 {
			p.bindCuts(fi)
		}
	}
	return p, nil
}

// allFuncs: the functions plus the region pseudo functions.
func (p *Prog) allFuncs() []*FuncInfo {
	var out []*FuncInfo
	for _, fi := range p.funcs {
		out = append(out, fi)
	}
	out = append(out, p.regions...)
	return out
}

// bindRegion finds the statement a region contract is about (anchor as for cuts) and numbers its loops from 0.
func (p *Prog) bindRegion(fi *FuncInfo) error {
	src, err := os.ReadFile(fi.File)
	if err != nil {
		return err
	}
	anchor, nth := fi.Contract.RegionAnchor, 0
	if anchor == "" {
		return fmt.Errorf("region contract %s has no region clause", fi.Contract.Key)
	}
	if m := anchorNthRe.FindStringSubmatch(anchor); m != nil {
		anchor = m[1]
		fmt.Sscanf(m[2], "%d", &nth)
	}
	want := normStmt([]byte(anchor))
	var hits []ast.Stmt
	ast.Inspect(fi.Decl.Body, func(n ast.Node) bool {
		st, ok := n.(ast.Stmt)
		if !ok {
			return true
		}
		switch st.(type) {
		case *ast.BlockStmt, *ast.CaseClause, *ast.LabeledStmt:
			return true
		}
		a, b := p.fset.Position(st.Pos()).Offset, p.fset.Position(st.End()).Offset
		if a >= 0 && b <= len(src) && strings.HasPrefix(normStmt(src[a:b]), want) {
			hits = append(hits, st)
		}
		return true
	})
	switch {
	case nth > 0 && nth <= len(hits):
		fi.RegionStmt = hits[nth-1]
	case nth == 0 && len(hits) == 1:
		fi.RegionStmt = hits[0]
	default:
		return fmt.Errorf("region %s: anchor %q matches %d statements", fi.Contract.Key, fi.Contract.RegionAnchor, len(hits))
	}
	n := 0
	ast.Inspect(fi.RegionStmt, func(nd ast.Node) bool {
		switch nd.(type) {
		case *ast.ForStmt, *ast.RangeStmt:
			fi.LoopOrd[nd] = n
			n++
		case *ast.FuncLit:
			return false
		}
		return true
	})
	return nil
}

// funcKey: "Recv.Name" or "Name".
func funcKey(fn *types.Func) string { return shortFuncName(fn) }

func (p *Prog) contractByFullName(full string) *Contract { return p.ifaceContracts[full] }

func (p *Prog) ifaceMethodFullName(c *Contract) string {
	pk := p.pkgs[c.PkgPath]
	i := strings.Index(c.Key, ".")
	if pk == nil || i < 0 {
		return ""
	}
	tn, ok := pk.Types.Scope().Lookup(c.Key[:i]).(*types.TypeName)
	if !ok {
		return ""
	}
	it, ok := tn.Type().Underlying().(*types.Interface)
	if !ok {
		return ""
	}
	for k := 0; k < it.NumMethods(); k++ {
		if it.Method(k).Name() == c.Key[i+1:] {
			return it.Method(k).FullName()
		}
	}
	return ""
}

// qualified display name: pkgname.(Recv).Func
func (p *Prog) displayName(fi *FuncInfo) string {
	if fi.Region != "" {
		return fi.Pkg.Types.Name() + "." + funcKey(fi.Obj) + "#" + fi.Region
	}
	return fi.Pkg.Types.Name() + "." + funcKey(fi.Obj)
}

var effectFreePkgs = map[string]bool{"fmt": true, "log": true, "errors": true, "time": true, "os": false}

// effectFreeCall: calls that cannot influence anything under contract (printing, unlocking).
func (p *Prog) effectFreeCall(fr *Frame, call *ast.CallExpr) bool {
	sel, ok := call.Fun.(*ast.SelectorExpr)
	if !ok {
		return false
	}
	if fn, ok := fr.pkg.TypesInfo.Uses[sel.Sel].(*types.Func); ok && fn.Pkg() != nil {
		switch fn.Pkg().Path() {
		case "fmt", "log", "sync":
			return true
		}
	}
	return false
}

// isPoolPut: (*sync.Pool).Put - returning memory to a pool is tracked (ownership), unlike the other sync calls.
func (p *Prog) isPoolPut(fr *Frame, call *ast.CallExpr) bool {
	sel, ok := call.Fun.(*ast.SelectorExpr)
	if !ok {
		return false
	}
	fn, ok := fr.pkg.TypesInfo.Uses[sel.Sel].(*types.Func)
	return ok && fn.FullName() == "(*sync.Pool).Put"
}

// ---------- boxing pre-scan

// prescanBoxes marks array variables (locals and pointees of *[N]T parameters) that are sliced.
func (v *Verifier) prescanBoxes(fr *Frame, st *State, fi *FuncInfo) {
	if fr.boxed == nil {
		fr.boxed = map[*types.Var]bool{}
	}
	v.prescanMark(fr, fi)
	// pointer-to-array parameters already bound: box their pointees now
	for o, cell := range fr.vars {
		obj, isVar := o.(*types.Var)
		if !isVar || !fr.boxed[obj] {
			continue
		}
		if av, isArr := st.vals[cell].(ArrVal); isArr {
			// by-value array parameter (or receiver) that the callee slices: box the copy
			ref := v.freshRef(st)
			st.vals[cell] = BoxedArr{Sh: av.Sh, Ref: ref}
			v.eng.heapSetRows(st, av.Sh.Elem, ref, av.L)
			continue
		}
		pv, ok := st.vals[cell].(PtrVal)
		if !ok || pv.Loc == nil {
			continue
		}
		vl, ok := pv.Loc.(VarLoc)
		if !ok {
			panic(unsupportedf(fi.Decl.Pos(), "pointer-to-array parameter %s points into an aggregate and is sliced", obj.Name()))
		}
		if _, already := st.vals[vl.C].(BoxedArr); already {
			continue
		}
		av, ok := st.vals[vl.C].(ArrVal)
		if !ok {
			continue
		}
		ref := v.freshRef(st)
		st.vals[vl.C] = BoxedArr{Sh: av.Sh, Ref: ref}
		v.eng.heapSetRows(st, av.Sh.Elem, ref, av.L)
	}
}

// ---------- intrinsics (trusted models of external functions)

func (v *Verifier) intrinsic(fr *Frame, st *State, full string, fn *types.Func, recv Val, args []Val, x *ast.CallExpr) (Val, bool) {
	c := v.eng.C
	use := func() { v.intrinsicsUsed[full] = true }
	pos := x.Pos()
	byteSh := v.eng.shapeOf(types.Typ[types.Uint8])
	readByte := func(sv SliceVal, i int64) *Term {
		return v.eng.heapReadElem(st, byteSh, sv.Ref, v.iAdd(sv.Off, v.idxConst(i))).(Scalar).T
	}
	writeByte := func(sv SliceVal, i int64, t *Term) {
		v.eng.heapWriteElem(st, byteSh, sv.Ref, v.iAdd(sv.Off, v.idxConst(i)), Scalar{t, types.Typ[types.Uint8]})
	}
	needLen := func(sv SliceVal, n int64) {
		if !fr.inSpec {
			v.oblige(fr, st, "bounds", pos, v.iLe(v.idxConst(n), sv.Len), fmt.Sprintf("%s needs %d bytes", fn.Name(), n))
		}
	}
	if r, ok := v.bigIntrinsic(fr, st, full, fn, recv, args, x); ok {
		return r, true
	}
	if v.eng.MathInts {
		// only effect-free helpers are modelled in math mode
		switch {
		case strings.HasPrefix(full, "fmt.") || strings.HasPrefix(full, "errors.") || strings.HasPrefix(full, "log."):
		default:
			return nil, false
		}
	}
	switch full {
	case "(error).Error":
		// the text of an error: an arbitrary string
		use()
		var wf []*Term
		val := v.eng.freshVal(v.eng.shapeOf(types.Typ[types.String]), "errtext", &wf)
		for _, w := range wf {
			st.assume(w)
		}
		return val, true
	case "(*sync.Mutex).Lock", "(*sync.Mutex).Unlock", "(*sync.Cond).Signal", "(*sync.Cond).Broadcast":
		// sequential semantics: locking and signalling have no effect on the state under contract
		// (mutual exclusion and wake-ups are not modelled; listed as an assumption through intrinsicsUsed)
		use()
		return TupleVal{}, true
	case "(encoding/binary.bigEndian).PutUint64", "(encoding/binary.bigEndian).PutUint32", "(encoding/binary.bigEndian).PutUint16",
		"(encoding/binary.littleEndian).PutUint64", "(encoding/binary.littleEndian).PutUint32", "(encoding/binary.littleEndian).PutUint16":
		use()
		sv := args[0].(SliceVal)
		val := v.asScalar(args[1], pos).T
		n := int64(val.Sort.W / 8)
		needLen(sv, n)
		big := strings.Contains(full, "bigEndian")
		for i := int64(0); i < n; i++ {
			var lo int
			if big {
				lo = int(n-1-i) * 8
			} else {
				lo = int(i) * 8
			}
			writeByte(sv, i, c.Extract(lo+7, lo, val))
		}
		return TupleVal{}, true
	case "(encoding/binary.bigEndian).Uint64", "(encoding/binary.bigEndian).Uint32", "(encoding/binary.bigEndian).Uint16",
		"(encoding/binary.littleEndian).Uint64", "(encoding/binary.littleEndian).Uint32", "(encoding/binary.littleEndian).Uint16":
		use()
		sv := args[0].(SliceVal)
		rt := fn.Type().(*types.Signature).Results().At(0).Type()
		n := int64(basicWidth(rt.Underlying().(*types.Basic)) / 8)
		needLen(sv, n)
		big := strings.Contains(full, "bigEndian")
		var acc *Term
		for i := int64(0); i < n; i++ {
			b := readByte(sv, i)
			if acc == nil {
				acc = b
			} else if big {
				acc = c.Concat(acc, b)
			} else {
				acc = c.Concat(b, acc)
			}
		}
		return Scalar{acc, rt}, true
	case "(crypto/cipher.Block).Encrypt":
		use()
		blk := recv.(OpaqueVal)
		dst := args[0].(SliceVal)
		src := args[1].(SliceVal)
		needLen(dst, 16)
		needLen(src, 16)
		var in *Term
		for i := int64(0); i < 16; i++ {
			b := readByte(src, i)
			if in == nil {
				in = b
			} else {
				in = c.Concat(in, b)
			}
		}
		out := c.App("ufAES", BVSort(128), blk.ID, in)
		for i := int64(0); i < 16; i++ {
			lo := int(15-i) * 8
			writeByte(dst, i, c.Extract(lo+7, lo, out))
		}
		return TupleVal{}, true
	case "crypto/aes.NewCipher":
		use()
		// the cipher is a function of the key bytes (per key length); error iff the length is not 16/24/32
		key := args[0].(SliceVal)
		id := v.aesKeyID(st, key)
		okLen := c.Or(c.Eq(key.Len, v.idxConst(16)), c.Eq(key.Len, v.idxConst(24)), c.Eq(key.Len, v.idxConst(32)))
		res := fn.Type().(*types.Signature).Results()
		blk := OpaqueVal{Sh: v.eng.shapeOf(res.At(0).Type()), ID: id, Nil: c.Not(okLen)}
		err := OpaqueVal{Sh: v.eng.shapeOf(res.At(1).Type()), ID: c.Fresh("err", IntSort), Nil: okLen}
		return TupleVal{[]Val{blk, err}}, true
	case "fmt.Errorf", "errors.New":
		use()
		sh := v.eng.shapeOf(fn.Type().(*types.Signature).Results().At(0).Type())
		return OpaqueVal{Sh: sh, ID: c.Fresh("err", IntSort), Nil: c.False()}, true
	case "fmt.Sprintf", "fmt.Sprint", "fmt.Sprintln":
		use()
		sh := v.eng.shapeOf(types.Typ[types.String])
		return OpaqueVal{Sh: sh, ID: c.Fresh("str", IntSort), Nil: c.False()}, true
	case "fmt.Printf", "fmt.Println", "fmt.Print", "fmt.Fprintf", "fmt.Fprintln", "fmt.Fprint":
		use()
		res := fn.Type().(*types.Signature).Results()
		var out []Val
		for i := 0; i < res.Len(); i++ {
			var wf []*Term
			out = append(out, v.eng.freshVal(v.eng.shapeOf(res.At(i).Type()), "pr", &wf))
		}
		return TupleVal{out}, true
	case "(io.Reader).Read", "(io.ReadWriter).Read", "crypto/rand.Read":
		use()
		// The reader delivers its fixed input stream inByte(rd, k) in order: 0 <= n <= len(p),
		// p[0:n] are the next n bytes, the rest of p is scratch; rpos advances by n.
		p := args[0].(SliceVal)
		n := c.Fresh("read$n", v.eng.IdxSort())
		st.assume(v.iLe(v.idxConst(0), n))
		st.assume(v.iLe(n, p.Len))
		res := fn.Type().(*types.Signature).Results()
		err := OpaqueVal{Sh: v.eng.shapeOf(res.At(1).Type()), ID: c.Fresh("err", IntSort), Nil: c.Fresh("read$ok", BoolSort)}
		rd, isRd := recv.(OpaqueVal)
		if isRd && v.eng.IntIdx() {
			posH := v.ghostHeap(st, gRdPos)
			pos0 := c.Select(posH, rd.ID)
			old := v.eng.heapRows(st, p.Sh.Elem, p.Ref)[0]
			nr := c.Fresh("readrow", old.Sort)
			j := c.Bound("j", IntSort)
			rel := c.ISub(j, p.Off)
			inData := c.And(c.ILe(p.Off, j), c.ILt(rel, n))
			inBuf := c.And(c.ILe(p.Off, j), c.ILt(rel, p.Len))
			st.assume(c.Forall([]*Term{j}, c.And(
				c.Implies(inData, c.Eq(c.Select(nr, j), c.App("ghost$inByte", BVSort(8), rd.ID, c.IAdd(pos0, rel)))),
				c.Implies(c.Not(inBuf), c.Eq(c.Select(nr, j), c.Select(old, j))))))
			v.eng.heapSetRows(st, p.Sh.Elem, p.Ref, []*Term{nr})
			// on error nothing is known to have been consumed beyond n (n may be 0)
			v.setGhostHeap(st, gRdPos, c.Store(posH, rd.ID, c.IAdd(pos0, n)))
		} else {
			v.havocRange(st, p, p.Off, v.iAdd(p.Off, p.Len))
		}
		if full == "crypto/rand.Read" {
			st.assume(c.Implies(err.Nil, c.Eq(n, p.Len)))
		}
		return TupleVal{[]Val{v.intVal(n), err}}, true
	case "(*sync/atomic.Uint64).Add", "(*sync/atomic.Uint64).Load", "(*sync/atomic.Uint64).Store":
		use()
		pv, ok := recv.(PtrVal)
		if !ok || pv.Loc != nil {
			return nil, false
		}
		if !fr.inSpec {
			v.oblige(fr, st, "nil", pos, c.Not(pv.Nil), "nil pointer dereference (atomic counter)")
		}
		h := v.ghostHeap(st, gAtomic)
		cur := c.Select(h, pv.Ref)
		u64 := types.Typ[types.Uint64]
		switch fn.Name() {
		case "Load":
			return Scalar{cur, u64}, true
		case "Store":
			v.setGhostHeap(st, gAtomic, c.Store(h, pv.Ref, v.asScalar(args[0], pos).T))
			return TupleVal{}, true
		default:
			nv := c.BVAdd(cur, v.asScalar(args[0], pos).T)
			v.setGhostHeap(st, gAtomic, c.Store(h, pv.Ref, nv))
			return Scalar{nv, u64}, true
		}
	case "(crypto/cipher.Stream).XORKeyStream":
		use()
		v.needIntIdx(pos, "keystream model")
		// dst[k] = src[k] ^ ks(stream, pos+k) for k < len(src); pos advances by len(src)
		sv := recv.(OpaqueVal)
		dst, src := args[0].(SliceVal), args[1].(SliceVal)
		if !fr.inSpec {
			v.oblige(fr, st, "bounds", pos, c.ILe(src.Len, dst.Len), "XORKeyStream: dst shorter than src")
		}
		posH := v.ghostHeap(st, gKsPos)
		p0 := c.Select(posH, sv.ID)
		srcRow := v.eng.heapRows(st, byteSh, src.Ref)[0]
		old := v.eng.heapRows(st, byteSh, dst.Ref)[0]
		nr := c.Fresh("ksrow", old.Sort)
		j := c.Bound("j", IntSort)
		rel := c.ISub(j, dst.Off)
		in := c.And(c.ILe(dst.Off, j), c.ILt(rel, src.Len))
		st.assume(c.Forall([]*Term{j}, c.Eq(c.Select(nr, j), c.Ite(in,
			c.BVXor(c.Select(srcRow, c.IAdd(src.Off, rel)), c.App("ghost$ks", BVSort(8), sv.ID, c.IAdd(p0, rel))),
			c.Select(old, j)))))
		v.eng.heapSetRows(st, byteSh, dst.Ref, []*Term{nr})
		v.setGhostHeap(st, gKsPos, c.Store(posH, sv.ID, c.IAdd(p0, src.Len)))
		return TupleVal{}, true
	case "crypto/cipher.NewCTR":
		use()
		blk := args[0].(OpaqueVal)
		iv := args[1].(SliceVal)
		rows := v.eng.heapRows(st, byteSh, iv.Ref)
		id := c.App("ufCTR", IntSort, blk.ID, rows[0], iv.Off, iv.Len)
		return OpaqueVal{Sh: v.eng.shapeOf(fn.Type().(*types.Signature).Results().At(0).Type()), ID: id, Nil: c.False()}, true
	case "bufio.NewReader":
		use()
		in := args[0].(OpaqueVal)
		sh := v.eng.shapeOf(fn.Type().(*types.Signature).Results().At(0).Type())
		return PtrVal{Sh: sh, Ref: c.App("bufio$reader", IntSort, in.ID), Nil: c.False()}, true
	case "(*bufio.Reader).ReadByte":
		use()
		res := fn.Type().(*types.Signature).Results()
		return TupleVal{[]Val{Scalar{c.Fresh("readbyte", BVSort(8)), types.Typ[types.Uint8]},
			OpaqueVal{Sh: v.eng.shapeOf(res.At(1).Type()), ID: c.Fresh("err", IntSort), Nil: c.Fresh("readbyte$ok", BoolSort)}}}, true
	case "(*bufio.Reader).Read":
		use()
		p := args[0].(SliceVal)
		v.havocRange(st, p, p.Off, v.iAdd(p.Off, p.Len))
		n := c.Fresh("read$n", v.eng.IdxSort())
		st.assume(v.iLe(v.idxConst(0), n))
		st.assume(v.iLe(n, p.Len))
		if v.eng.IntIdx() {
			// position of the buffered reader: Read may return fewer bytes than asked for
			id := v.ifaceIdentity(st, recv, pos)
			posH := v.ghostHeap(st, gRdPos)
			v.setGhostHeap(st, gRdPos, c.Store(posH, id, c.IAdd(c.Select(posH, id), n)))
		}
		res := fn.Type().(*types.Signature).Results()
		return TupleVal{[]Val{v.intVal(n), OpaqueVal{Sh: v.eng.shapeOf(res.At(1).Type()), ID: c.Fresh("err", IntSort), Nil: c.Fresh("read$ok", BoolSort)}}}, true
	case "(*bytes.Buffer).Write", "(*bytes.Buffer).Len", "(*bytes.Buffer).Bytes", "(*bytes.Buffer).WriteByte":
		// bytes.Buffer that is only written: a byte log (sent/sentByte of the buffer's identity);
		// Len() is its length, Bytes() a fresh copy of it. Reading from the buffer is not modelled.
		use()
		v.needIntIdx(pos, "bytes.Buffer model")
		id := v.ptrIdentity(recv, pos)
		lenH := v.ghostHeap(st, gChanLen)
		switch fn.Name() {
		case "Write":
			p := args[0].(SliceVal)
			v.logAppend(st, id, p)
			res := fn.Type().(*types.Signature).Results()
			return TupleVal{[]Val{v.intVal(p.Len), OpaqueVal{Sh: v.eng.shapeOf(res.At(1).Type()), ID: c.Inti(0), Nil: c.True()}}}, true
		case "WriteByte":
			return nil, false
		case "Len":
			return v.intVal(v.nonNeg(c.Select(lenH, id))), true
		default: // Bytes
			sh := v.eng.shapeOf(fn.Type().(*types.Signature).Results().At(0).Type())
			n := v.nonNeg(c.Select(lenH, id))
			ref := v.freshRef(st)
			row := c.Select(v.ghostHeap(st, gChanData), id)
			v.eng.heapSetRows(st, sh.Elem, ref, []*Term{row})
			return SliceVal{Sh: sh, Ref: ref, Off: c.Inti(0), Len: n, Cap: n}, true
		}
	case "(*sync.Pool).Get":
		use()
		sh := v.eng.shapeOf(fn.Type().(*types.Signature).Results().At(0).Type())
		return OpaqueVal{Sh: sh, ID: c.Fresh("pool$get", IntSort), Nil: c.False()}, true
	case "(*sync.Pool).Put":
		// Ownership: the object handed to the pool, and the arrays its slice fields refer to, belong to
		// the pool from now on (ghost flag "released"); any later use of them by this function or its
		// callers is an obligation failure, and contracts can speak about it (released(x)).
		use()
		if len(x.Args) == 1 && v.eng.IntIdx() {
			if pv, ok := v.eval(fr, st, x.Args[0]).(PtrVal); ok && pv.Loc == nil {
				h := v.ghostHeap(st, gReleased)
				if !fr.inSpec {
					// handing the same object to the pool twice makes two later Get calls share it
					v.oblige(fr, st, "released", pos, c.Not(c.Select(h, pv.Ref)), "object is handed to a sync.Pool a second time")
				}
				h = c.Store(h, pv.Ref, c.True())
				if pt, ok := v.typeOf(fr, x.Args[0]).Underlying().(*types.Pointer); ok {
					if stt, ok := pt.Elem().Underlying().(*types.Struct); ok {
						obj := v.eng.load(st, v.derefLoc(fr, st, pv, pos))
						if sv, ok := obj.(StructVal); ok {
							for i := 0; i < stt.NumFields() && i < len(sv.F); i++ {
								if fsl, ok := sv.F[i].(SliceVal); ok {
									h = c.Store(h, fsl.Ref, c.True())
								}
							}
						}
					}
				}
				v.setGhostHeap(st, gReleased, h)
			}
		}
		return TupleVal{}, true
	case "encoding/binary.ReadUvarint":
		// reads 1..10 bytes from a byte reader; the decoded value is not modelled (fresh)
		use()
		v.needIntIdx(pos, "ReadUvarint model")
		id := v.ifaceIdentity(st, args[0], pos)
		posH := v.ghostHeap(st, gRdPos)
		pos0 := c.Select(posH, id)
		k := c.Fresh("uvarint$n", IntSort)
		ok := c.Fresh("uvarint$ok", BoolSort)
		st.assume(c.And(c.ILe(c.Inti(0), k), c.ILe(k, c.Inti(10))))
		st.assume(c.Implies(ok, c.ILe(c.Inti(1), k)))
		st.assume(c.ILe(c.IAdd(pos0, k), c.App("ghost$rdLen", IntSort, id)))
		v.setGhostHeap(st, gRdPos, c.Store(posH, id, c.IAdd(pos0, k)))
		res := fn.Type().(*types.Signature).Results()
		val := Scalar{c.Fresh("uvarint", BVSort(64)), types.Typ[types.Uint64]}
		err := OpaqueVal{Sh: v.eng.shapeOf(res.At(1).Type()), ID: c.Fresh("err", IntSort), Nil: ok}
		return TupleVal{[]Val{val, err}}, true
	case "bytes.NewReader":
		// a reader over b: the input stream of its identity is the content of b (ghost inByte), exact length
		use()
		v.needIntIdx(pos, "bytes.Reader model")
		b := args[0].(SliceVal)
		sh := v.eng.shapeOf(fn.Type().(*types.Signature).Results().At(0).Type())
		ref := v.freshRef(st)
		rd := PtrVal{Sh: sh, Ref: ref, Nil: c.False()}
		k := c.Bound("k", IntSort)
		row := v.eng.heapRows(st, byteSh, b.Ref)[0]
		st.assume(c.Forall([]*Term{k}, c.Implies(c.And(c.ILe(c.Inti(0), k), c.ILt(k, b.Len)),
			c.Eq(c.App("ghost$inByte", BVSort(8), ref, k), c.Select(row, c.IAdd(b.Off, k))))))
		st.assume(c.Eq(c.App("ghost$rdLen", IntSort, ref), b.Len))
		v.setGhostHeap(st, gRdPos, c.Store(v.ghostHeap(st, gRdPos), ref, c.Inti(0)))
		return rd, true
	case "(*bytes.Reader).Read", "(*bytes.Reader).Len":
		use()
		v.needIntIdx(pos, "bytes.Reader model")
		id := v.ptrIdentity(recv, pos)
		posH := v.ghostHeap(st, gRdPos)
		pos0 := c.Select(posH, id)
		total := c.App("ghost$rdLen", IntSort, id)
		remaining := c.ISub(total, pos0)
		if fn.Name() == "Len" {
			return v.intVal(remaining), true
		}
		// Read(p): n = min(len(p), remaining) bytes are copied; io.EOF iff nothing remains (and len(p) > 0)
		p := args[0].(SliceVal)
		n := c.Ite(c.ILe(p.Len, remaining), p.Len, remaining)
		old := v.eng.heapRows(st, byteSh, p.Ref)[0]
		nr := c.Fresh("readrow", old.Sort)
		j := c.Bound("j", IntSort)
		rel := c.ISub(j, p.Off)
		inData := c.And(c.ILe(p.Off, j), c.ILt(rel, n))
		st.assume(c.Forall([]*Term{j}, c.Eq(c.Select(nr, j), c.Ite(inData, c.App("ghost$inByte", BVSort(8), id, c.IAdd(pos0, rel)), c.Select(old, j)))))
		v.eng.heapSetRows(st, byteSh, p.Ref, []*Term{nr})
		v.setGhostHeap(st, gRdPos, c.Store(posH, id, c.IAdd(pos0, n)))
		res := fn.Type().(*types.Signature).Results()
		eof := c.And(c.ILe(remaining, c.Inti(0)), c.ILt(c.Inti(0), p.Len))
		err := OpaqueVal{Sh: v.eng.shapeOf(res.At(1).Type()), ID: c.Inti(-7), Nil: c.Not(eof)}
		return TupleVal{[]Val{v.intVal(n), err}}, true
	case "bytes.Equal":
		// len(a) == len(b) && forall k < len(a): a[k] == b[k]
		use()
		a, b := args[0].(SliceVal), args[1].(SliceVal)
		var same *Term
		if a.Len.IsConst() && a.Len.Val.IsInt64() && a.Len.Val.Int64() <= 64 {
			parts := []*Term{}
			for k := int64(0); k < a.Len.Val.Int64(); k++ {
				parts = append(parts, c.Eq(
					v.eng.heapReadElem(st, byteSh, a.Ref, v.iAdd(a.Off, v.idxConst(k))).(Scalar).T,
					v.eng.heapReadElem(st, byteSh, b.Ref, v.iAdd(b.Off, v.idxConst(k))).(Scalar).T))
			}
			same = c.And(parts...)
		} else {
			sort := BVSort(64)
			if v.eng.IntIdx() {
				sort = IntSort
			}
			k := c.Bound("k", sort)
			same = c.Forall([]*Term{k}, c.Implies(v.inRange(k, a.Len), c.Eq(
				v.eng.heapReadElem(st, byteSh, a.Ref, v.iAdd(a.Off, k)).(Scalar).T,
				v.eng.heapReadElem(st, byteSh, b.Ref, v.iAdd(b.Off, k)).(Scalar).T)))
		}
		return Scalar{c.And(c.Eq(a.Len, b.Len), same), types.Typ[types.Bool]}, true
	case "(io.Closer).Close":
		use()
		res := fn.Type().(*types.Signature).Results()
		return OpaqueVal{Sh: v.eng.shapeOf(res.At(0).Type()), ID: c.Fresh("err", IntSort), Nil: c.Fresh("close$ok", BoolSort)}, true
	case "io.ReadFull":
		use()
		// like Read on the reader's fixed input stream (p[0:n] are the next n bytes, the position
		// advances by n), but n == len(p) whenever the error is nil
		p := args[1].(SliceVal)
		n := c.Fresh("read$n", v.eng.IdxSort())
		res := fn.Type().(*types.Signature).Results()
		err := OpaqueVal{Sh: v.eng.shapeOf(res.At(1).Type()), ID: c.Fresh("err", IntSort), Nil: c.Fresh("read$ok", BoolSort)}
		st.assume(v.iLe(v.idxConst(0), n))
		st.assume(v.iLe(n, p.Len))
		st.assume(c.Implies(err.Nil, c.Eq(n, p.Len)))
		_, isIface := args[0].(OpaqueVal)
		_, isPtr := args[0].(PtrVal)
		if (isIface || isPtr) && v.eng.IntIdx() {
			rd := OpaqueVal{ID: v.ifaceIdentity(st, args[0], pos)}
			posH := v.ghostHeap(st, gRdPos)
			pos0 := c.Select(posH, rd.ID)
			old := v.eng.heapRows(st, p.Sh.Elem, p.Ref)[0]
			nr := c.Fresh("readrow", old.Sort)
			j := c.Bound("j", IntSort)
			rel := c.ISub(j, p.Off)
			inData := c.And(c.ILe(p.Off, j), c.ILt(rel, n))
			inBuf := c.And(c.ILe(p.Off, j), c.ILt(rel, p.Len))
			st.assume(c.Forall([]*Term{j}, c.And(
				c.Implies(inData, c.Eq(c.Select(nr, j), c.App("ghost$inByte", BVSort(8), rd.ID, c.IAdd(pos0, rel)))),
				c.Implies(c.Not(inBuf), c.Eq(c.Select(nr, j), c.Select(old, j))))))
			v.eng.heapSetRows(st, p.Sh.Elem, p.Ref, []*Term{nr})
			v.setGhostHeap(st, gRdPos, c.Store(posH, rd.ID, c.IAdd(pos0, n)))
		} else {
			v.havocRange(st, p, p.Off, v.iAdd(p.Off, p.Len))
		}
		return TupleVal{[]Val{v.intVal(n), err}}, true
	case "math/bits.OnesCount64", "math/bits.Len64", "math/bits.TrailingZeros64", "math/bits.LeadingZeros64":
		use()
		a := v.asScalar(args[0], pos).T
		r := c.App("uf$"+fn.Name(), BVSort(64), a)
		st.assume(c.BVUle(r, c.BVu(64, 64)))
		return Scalar{r, types.Typ[types.Int]}, true
	}
	return nil, false
}

// ptrIdentity: an integer identity for the object a pointer refers to (the reference of a heap
// object, or a constant derived from the cell of a local variable whose address is taken).
func (v *Verifier) ptrIdentity(recv Val, pos token.Pos) *Term {
	switch o := recv.(type) {
	case OpaqueVal:
		return o.ID
	case PtrVal:
		if o.Loc == nil {
			return o.Ref
		}
		if vl, ok := o.Loc.(VarLoc); ok {
			return v.eng.C.Inti(localIDBase - int64(vl.C.id))
		}
	}
	panic(unsupportedf(pos, "object has no identity"))
}

// ifaceIdentity: identity of the object behind an interface value (or a plain pointer/opaque value).
func (v *Verifier) ifaceIdentity(st *State, a Val, pos token.Pos) *Term {
	switch o := a.(type) {
	case OpaqueVal:
		return o.ID
	case PtrVal:
		return v.ptrIdentity(o, pos)
	}
	panic(unsupportedf(pos, "interface argument has no identity (%T)", a))
}

// havocRange replaces rows of sv.Ref in [lo, hi) by unknown values.
func (v *Verifier) havocRange(st *State, sv SliceVal, lo, hi *Term) {
	c := v.eng.C
	ds := v.eng.leafDescs(sv.Sh.Elem)
	old := v.eng.heapRows(st, sv.Sh.Elem, sv.Ref)
	rows := make([]*Term, len(ds))
	for r, d := range ds {
		nr := c.Fresh("hvrow", ArraySort(v.eng.IdxSort(), d.Sort))
		j := c.Bound("j", v.eng.IdxSort())
		st.assume(c.Forall([]*Term{j}, c.Or(c.And(v.iLe(lo, j), v.iLt(j, hi)), c.Eq(c.Select(nr, j), c.Select(old[r], j)))))
		rows[r] = nr
	}
	v.eng.heapSetRows(st, sv.Sh.Elem, sv.Ref, rows)
}

var wsRe = regexp.MustCompile(`\s+`)
var anchorNthRe = regexp.MustCompile(`^(.*)#([0-9]+)$`)

func normStmt(b []byte) string { return strings.TrimSpace(wsRe.ReplaceAllString(string(b), " ")) }

// bindCuts anchors each cut before the unique statement whose text starts with its anchor.
// A cut whose anchor matches no statement (or several) is recorded as unbound; the function
// is then rejected when verified (a stale contract is not silently dropped).
func (p *Prog) bindCuts(fi *FuncInfo) {
	fi.CutAt = map[ast.Stmt][]*Cut{}
	src, err := os.ReadFile(fi.File)
	if err != nil || fi.Decl.Body == nil {
		return
	}
	all := append(append([]*Cut{}, fi.Contract.Cuts...), fi.Contract.Assumes...)
	for _, cut := range all {
		anchor, nth := cut.Anchor, 0
		if m := anchorNthRe.FindStringSubmatch(anchor); m != nil {
			// "text"#N: the N-th statement (in source order) whose text starts with text
			anchor = m[1]
			fmt.Sscanf(m[2], "%d", &nth)
		}
		want := normStmt([]byte(renameWords(anchor, fi.Rename)))
		var hits []ast.Stmt
		ast.Inspect(fi.Decl.Body, func(n ast.Node) bool {
			st, ok := n.(ast.Stmt)
			if !ok {
				return true
			}
			switch st.(type) {
			case *ast.BlockStmt, *ast.CaseClause, *ast.LabeledStmt:
				return true
			}
			a, b := p.fset.Position(st.Pos()).Offset, p.fset.Position(st.End()).Offset
			if a >= 0 && b <= len(src) && strings.HasPrefix(normStmt(src[a:b]), want) {
				hits = append(hits, st)
			}
			return true
		})
		if nth > 0 && nth <= len(hits) {
			fi.CutAt[hits[nth-1]] = append(fi.CutAt[hits[nth-1]], cut)
		} else if len(hits) == 1 && nth == 0 {
			fi.CutAt[hits[0]] = append(fi.CutAt[hits[0]], cut)
		} else {
			fi.CutErr = append(fi.CutErr, fmt.Sprintf("cut %d: anchor %q matches %d statements", cut.Ord, cut.Anchor, len(hits)))
		}
	}
}

// aesKeyID: the identity of the AES cipher for a key: an uninterpreted function of the key
// bytes, one per key length (16/24/32); other lengths give an unrelated value.
func (v *Verifier) aesKeyID(st *State, key SliceVal) *Term {
	c := v.eng.C
	byteSh := v.eng.shapeOf(types.Typ[types.Uint8])
	row := v.eng.heapRows(st, byteSh, key.Ref)[0]
	cat := func(n int) *Term {
		var acc *Term
		for i := 0; i < n; i++ {
			b := c.Select(row, v.iAdd(key.Off, v.idxConst(int64(i))))
			if acc == nil {
				acc = b
			} else {
				acc = c.Concat(acc, b)
			}
		}
		return acc
	}
	id16 := c.App("ufAESKey128", IntSort, cat(16))
	id24 := c.App("ufAESKey192", IntSort, cat(24))
	id32 := c.App("ufAESKey256", IntSort, cat(32))
	other := c.App("ufAESKeyOther", IntSort, row, key.Off, key.Len)
	return c.Ite(c.Eq(key.Len, v.idxConst(16)), id16, c.Ite(c.Eq(key.Len, v.idxConst(24)), id24, c.Ite(c.Eq(key.Len, v.idxConst(32)), id32, other)))
}
