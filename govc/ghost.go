package main

// Ghost state models: byte-slice channels as FIFO byte logs, the transport reader's
// input stream, atomic counters; and the contract builtins that observe them.

import (
	"go/ast"
	"go/token"
	"go/types"
)

const (
	gChanLen  = "G:chan#len"  // channel id -> number of bytes ever sent
	gChanData = "G:chan#data" // channel id -> (k -> k-th byte ever sent)
	gChanMsgs = "G:chan#msgs" // channel id -> number of messages sent
	gRdPos    = "G:rd#pos"    // reader id -> bytes delivered so far
	gAtomic   = "G:atomic64"  // pointer ref -> value
	gKsPos    = "G:ks#pos"    // cipher.Stream id -> keystream bytes consumed
	gChanClosed  = "G:chan#closed"  // channel id -> close(ch) has been executed
	gChanDrained = "G:chan#drained" // channel id -> a range loop over ch has run to completion
	gReleased    = "G:released"     // array / object ref -> handed back to a sync.Pool (must not be used any more)
)

func (v *Verifier) ghostHeap(st *State, key string) *Term {
	var s *Sort
	switch key {
	case gChanLen, gChanMsgs, gRdPos, gKsPos:
		s = ArraySort(IntSort, IntSort)
	case gChanData:
		s = ArraySort(IntSort, ArraySort(IntSort, BVSort(8)))
	case gAtomic:
		s = ArraySort(IntSort, BVSort(64))
	case gChanClosed, gChanDrained:
		s = ArraySort(IntSort, BoolSort)
	case gReleased:
		s = ArraySort(IntSort, BoolSort)
		_, existed := v.eng.C.decls["H0$"+key]
		h := v.eng.heap(st, key, s)
		if !existed {
			// at function entry nothing the function can reach has been handed to a pool
			c := v.eng.C
			r := c.Bound("r", IntSort)
			c.Axioms = append(c.Axioms, c.Forall([]*Term{r}, c.Not(c.Select(c.decls["H0$"+key], r))))
		}
		return h
	case gBigBits:
		s = ArraySort(IntSort, ArraySort(IntSort, BoolSort))
	case gBigVal:
		s = ArraySort(IntSort, IntSort)
	}
	return v.eng.heap(st, key, s)
}

func (v *Verifier) setGhostHeap(st *State, key string, t *Term) {
	st.heaps[key] = t
	if st.log != nil {
		st.log.heaps[key] = true
	}
}

func (v *Verifier) needIntIdx(pos token.Pos, what string) {
	if !v.eng.IntIdx() {
		panic(unsupportedf(pos, "%s needs mode hybrid", what))
	}
}

// execSend: ch <- v. For chan []byte the bytes are appended to the channel's byte log.
func (v *Verifier) execSend(fr *Frame, st *State, x *ast.SendStmt) {
	_ = v.eng.C
	ch, ok := v.eval(fr, st, x.Chan).(OpaqueVal)
	if !ok {
		panic(unsupportedf(x.Pos(), "send on non-channel value"))
	}
	val := v.eval(fr, st, x.Value)
	sv, isBytes := val.(SliceVal)
	if !isBytes || sv.Sh.Elem.Kind != ShScalar || sv.Sh.Elem.Sort != BVSort(8) {
		v.notes = append(v.notes, "channel send of a non-[]byte value treated as having no effect on the sender's state")
		return
	}
	v.needIntIdx(x.Pos(), "channel byte log")
	v.intrinsicsUsed["chan []byte send: the bytes are committed to the receiver in FIFO order (channel hand-off to the writer goroutine)"] = true
	v.logAppend(st, ch.ID, sv)
}

// logAppend appends the bytes of sv to the byte log of object id (channel or bytes.Buffer).
func (v *Verifier) logAppend(st *State, id *Term, sv SliceVal) {
	c := v.eng.C
	ch := OpaqueVal{ID: id}
	lenH := v.ghostHeap(st, gChanLen)
	dataH := v.ghostHeap(st, gChanData)
	n0 := c.Select(lenH, ch.ID)
	oldRow := c.Select(dataH, ch.ID)
	src := v.eng.heapRows(st, sv.Sh.Elem, sv.Ref)[0]
	newRow := c.Fresh("chanrow", oldRow.Sort)
	k := c.Bound("k", IntSort)
	rel := c.ISub(k, n0)
	in := c.And(c.ILe(n0, k), c.ILt(rel, sv.Len))
	st.assume(c.Forall([]*Term{k}, c.Eq(c.Select(newRow, k), c.Ite(in, c.Select(src, c.IAdd(sv.Off, rel)), c.Select(oldRow, k)))))
	v.setGhostHeap(st, gChanData, c.Store(dataH, ch.ID, newRow))
	v.setGhostHeap(st, gChanLen, c.Store(lenH, ch.ID, c.IAdd(n0, sv.Len)))
	msgs := v.ghostHeap(st, gChanMsgs)
	v.setGhostHeap(st, gChanMsgs, c.Store(msgs, ch.ID, c.IAdd(c.Select(msgs, ch.ID), c.Inti(1))))
}

// evalRecv: <-ch yields an unconstrained value of the element type (a []byte gets a fresh backing array).
func (v *Verifier) evalRecv(fr *Frame, st *State, x *ast.UnaryExpr) Val {
	ch, ok := v.eval(fr, st, x.X).(OpaqueVal)
	if !ok {
		panic(unsupportedf(x.Pos(), "receive from non-channel value"))
	}
	_ = ch
	ct, ok := v.typeOf(fr, x.X).Underlying().(*types.Chan)
	if !ok {
		panic(unsupportedf(x.Pos(), "receive from non-channel"))
	}
	sh := v.eng.shapeOf(ct.Elem())
	var wf []*Term
	val := v.eng.freshVal(sh, "recv", &wf)
	for _, w := range wf {
		st.assume(w)
	}
	if sv, ok := val.(SliceVal); ok {
		// a buffer handed over by the other goroutine: nobody else holds it
		sv.Ref = v.freshRef(st)
		val = sv
		v.intrinsicsUsed["chan []byte receive: the received buffer is not referenced by anyone else"] = true
	}
	return val
}

// ghostBuiltin evaluates the contract builtins over ghost state.
func (v *Verifier) ghostBuiltin(fr *Frame, st *State, name string, x *ast.CallExpr) (Val, bool) {
	c := v.eng.C
	id := func(e ast.Expr) *Term {
		val := v.evalSpec(fr, st, e)
		switch o := val.(type) {
		case OpaqueVal:
			return o.ID
		case PtrVal:
			return v.ptrIdentity(o, e.Pos())
		}
		panic(unsupportedf(e.Pos(), "%s: argument has no identity", name))
	}
	intT := types.Typ[types.Int]
	switch name {
	case "sent": // sent(ch): bytes sent on ch so far
		v.needIntIdx(x.Pos(), name)
		return Scalar{v.nonNeg(c.Select(v.ghostHeap(st, gChanLen), id(x.Args[0]))), intT}, true
	case "sentMsgs":
		v.needIntIdx(x.Pos(), name)
		return Scalar{v.nonNeg(c.Select(v.ghostHeap(st, gChanMsgs), id(x.Args[0]))), intT}, true
	case "sentByte": // sentByte(ch, k)
		v.needIntIdx(x.Pos(), name)
		k := v.toIdx(v.coerce(v.evalSpec(fr, st, x.Args[1]), intT), x.Pos())
		return Scalar{c.Select(c.Select(v.ghostHeap(st, gChanData), id(x.Args[0])), k), types.Typ[types.Uint8]}, true
	case "rpos": // rpos(rd): bytes the reader has delivered so far
		v.needIntIdx(x.Pos(), name)
		return Scalar{v.nonNeg(c.Select(v.ghostHeap(st, gRdPos), id(x.Args[0]))), intT}, true
	case "inByte": // inByte(rd, k): the k-th byte the reader delivers (fixed, uninterpreted)
		v.needIntIdx(x.Pos(), name)
		k := v.toIdx(v.coerce(v.evalSpec(fr, st, x.Args[1]), intT), x.Pos())
		return Scalar{c.App("ghost$inByte", BVSort(8), id(x.Args[0]), k), types.Typ[types.Uint8]}, true
	case "closedCh": // closedCh(ch): close(ch) has been executed
		return Scalar{c.Select(v.ghostHeap(st, gChanClosed), id(x.Args[0])), types.Typ[types.Bool]}, true
	case "drainedCh": // drainedCh(ch): a range loop over ch has run until the channel was closed and empty
		return Scalar{c.Select(v.ghostHeap(st, gChanDrained), id(x.Args[0])), types.Typ[types.Bool]}, true
	case "rlen": // rlen(rd): total number of bytes a bytes.Reader holds
		v.needIntIdx(x.Pos(), name)
		return Scalar{c.App("ghost$rdLen", IntSort, id(x.Args[0])), intT}, true
	case "atomic": // atomic(p): current value of *atomic.Uint64 p
		return Scalar{c.Select(v.ghostHeap(st, gAtomic), id(x.Args[0])), types.Typ[types.Uint64]}, true
	}
	return nil, false
}

// nonNeg records the model invariant that a ghost counter (bytes sent on a channel, bytes
// delivered by a reader) is never negative, as a global fact about the closed term t.
func (v *Verifier) nonNeg(t *Term) *Term {
	c := v.eng.C
	if !t.open && !t.IsConst() {
		if v.nonNegSeen == nil {
			v.nonNegSeen = map[int]bool{}
		}
		if !v.nonNegSeen[t.id] {
			v.nonNegSeen[t.id] = true
			c.Axioms = append(c.Axioms, c.ILe(c.Inti(0), t))
		}
	}
	return t
}
