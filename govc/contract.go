package main

// Contract blocks (//@ comments) and the contract expression parser.
//
// Expression language: Go expressions plus
//   a ==> b, a <==> b, forall x T, y U :: e, exists x T :: e, old(e), result, resultN,
//   s[*] (in modifies only).
// Parsed into go/ast nodes; the extensions are encoded as calls of $-prefixed identifiers.

import (
	"fmt"
	"go/ast"
	"go/scanner"
	"go/token"
	"strconv"
	"strings"
)

type Clause struct {
	Kind string // requires | ensures | invariant | assert
	Text string
	Expr ast.Expr
	Ord  int
	Src  string // file:line
}

type Contract struct {
	Key        string // "Recv.Name" or "Name"
	PkgPath    string
	Requires   []*Clause
	Ensures    []*Clause
	Modifies   []ast.Expr
	ModText    []string
	LoopInv    map[int][]*Clause
	LoopMod    map[int][]ast.Expr // explicit loop frame (optional)
	Reveal     map[string]bool
	Inline     bool
	Trusted    bool
	Pure       bool // no side effects; may be used as UF when opaque
	MayNil     map[string]bool
	MayAlias   bool
	Mode       string
	Split      []*Clause
	Lemma      bool
	LParams    []LemmaParam
	Src        string
	Asserts    map[string][]*Clause // label -> assertions (unused)
	NoPanic    bool
	Cuts       []*Cut
	JoinSwitch bool
	IsDef      bool // contract-level definition (macro): def name(params) := expr
	DefBody    ast.Expr
	Assumes    []*Cut // trusted assumptions anchored at statements
	Axioms     []*Clause // facts proved elsewhere (Lean), assumed at function entry; Src holds the reference
	AxiomRefs  []string
	Timeout    int
	Solvers    []string
	RegionAnchor string    // region contract (Key "Func#name"): the statement of Func this contract is about
	Returns      []*Clause // region contract: conditions checked at every return statement inside the region
}

// Cut is an intermediate assertion anchored before the statement whose source text starts
// with Anchor: it is proved with Reveal added to the function's reveal set and then assumed
// as evaluated under the function's own reveal set (two-level opaque/reveal reasoning).
type Cut struct {
	Anchor string
	Reveal map[string]bool
	Clause *Clause
	Ord    int
	After  bool // assumption applies after the anchored statement
	Forget []string // variables whose definition is forgotten after the cut (abstraction point)
	Havoc  []ast.Expr // assume ... havoc t1, t2: locations the anchored statement may change behind the contracts' back
	HavocText string
}

type LemmaParam struct {
	Name string
	Type ast.Expr
}

var clauseKeywords = []string{"region", "returns", "requires", "ensures", "modifies", "loop", "reveal", "inline", "trusted", "pure", "maynil", "mayalias", "mode", "split", "timeout", "solvers", "cut", "joinswitch", "assume", "axiom"}

// parseContractComments extracts contract blocks from a file's comments.
func parseContractComments(fset *token.FileSet, f *ast.File, pkgPath string) ([]*Contract, error) {
	var lines []struct {
		text string
		pos  token.Position
	}
	for _, cg := range f.Comments {
		for _, c := range cg.List {
			if strings.HasPrefix(c.Text, "//@") {
				lines = append(lines, struct {
					text string
					pos  token.Position
				}{strings.TrimSpace(c.Text[3:]), fset.Position(c.Pos())})
			}
		}
	}
	var out []*Contract
	var cur *Contract
	type pending struct {
		kw   string
		text string
		src  string
	}
	var pend *pending
	flush := func() error {
		if pend == nil {
			return nil
		}
		p := pend
		pend = nil
		if cur == nil {
			return fmt.Errorf("%s: clause outside a func/lemma block", p.src)
		}
		return cur.addClause(p.kw, p.text, p.src)
	}
	for _, l := range lines {
		t := l.text
		src := fmt.Sprintf("%s:%d", l.pos.Filename, l.pos.Line)
		if t == "" {
			continue
		}
		if strings.HasPrefix(t, "nonneg ") {
			if err := flush(); err != nil {
				return nil, err
			}
			nn := &Contract{PkgPath: pkgPath, Src: src, Key: "$nonneg"}
			for _, f := range strings.FieldsFunc(t[7:], func(r rune) bool { return r == ',' || r == ' ' }) {
				nn.ModText = append(nn.ModText, f)
			}
			out = append(out, nn)
			cur = nil
			continue
		}
		if strings.HasPrefix(t, "symbolic ") {
			// symbolic T1, T2: pointers to these named struct types are identity-only references
			// (fields live in object heaps); parameters of such types are not bound to a private pointee
			if err := flush(); err != nil {
				return nil, err
			}
			nn := &Contract{PkgPath: pkgPath, Src: src, Key: "$symbolic"}
			for _, f := range strings.FieldsFunc(t[9:], func(r rune) bool { return r == ',' || r == ' ' }) {
				nn.ModText = append(nn.ModText, f)
			}
			out = append(out, nn)
			cur = nil
			continue
		}
		if strings.HasPrefix(t, "def ") {
			if err := flush(); err != nil {
				return nil, err
			}
			// def name(params) := expr   (may continue on following lines)
			cur = &Contract{PkgPath: pkgPath, LoopInv: map[int][]*Clause{}, LoopMod: map[int][]ast.Expr{}, Reveal: map[string]bool{}, MayNil: map[string]bool{}, Src: src, IsDef: true}
			body := strings.TrimSpace(t[4:])
			i := strings.Index(body, ":=")
			if i < 0 {
				return nil, fmt.Errorf("%s: def: missing ':='", src)
			}
			if err := cur.parseLemmaHead(strings.TrimSpace(body[:i])); err != nil {
				return nil, fmt.Errorf("%s: %v", src, err)
			}
			cur.Key = strings.TrimPrefix(cur.Key, "lemma.")
			out = append(out, cur)
			pend = &pending{kw: "defbody", text: strings.TrimSpace(body[i+2:]), src: src}
			continue
		}
		if strings.HasPrefix(t, "func ") || strings.HasPrefix(t, "lemma ") {
			if err := flush(); err != nil {
				return nil, err
			}
			cur = &Contract{PkgPath: pkgPath, LoopInv: map[int][]*Clause{}, LoopMod: map[int][]ast.Expr{}, Reveal: map[string]bool{}, MayNil: map[string]bool{}, Src: src}
			if strings.HasPrefix(t, "lemma ") {
				cur.Lemma = true
				if err := cur.parseLemmaHead(strings.TrimSpace(t[6:])); err != nil {
					return nil, fmt.Errorf("%s: %v", src, err)
				}
			} else {
				cur.Key = normalizeFuncKey(strings.TrimSpace(t[5:]))
			}
			out = append(out, cur)
			continue
		}
		kw := strings.FieldsFunc(t, func(r rune) bool { return r == ' ' || r == '\t' || r == ':' })[0]
		isKw := false
		for _, k := range clauseKeywords {
			if kw == k {
				isKw = true
			}
		}
		if isKw {
			if err := flush(); err != nil {
				return nil, err
			}
			pend = &pending{kw: kw, text: strings.TrimSpace(t[len(kw):]), src: src}
		} else {
			if pend == nil {
				return nil, fmt.Errorf("%s: continuation line without clause: %q", src, t)
			}
			pend.text += " " + t
		}
	}
	if err := flush(); err != nil {
		return nil, err
	}
	return out, nil
}

// normalizeFuncKey: "(l *Label) Xor(o Label)" / "(*Label).Xor" / "Label.Xor" / "Xor" -> "Label.Xor" / "Xor"
func normalizeFuncKey(s string) string {
	s = strings.TrimSpace(s)
	if strings.HasPrefix(s, "(") {
		end := strings.Index(s, ")")
		recv := strings.TrimSpace(s[1:end])
		rest := strings.TrimSpace(s[end+1:])
		rest = strings.TrimPrefix(rest, ".")
		fs := strings.Fields(recv)
		rt := fs[len(fs)-1]
		rt = strings.TrimPrefix(rt, "*")
		name := rest
		if i := strings.IndexAny(name, "( "); i >= 0 {
			name = name[:i]
		}
		return rt + "." + name
	}
	if i := strings.IndexAny(s, "( "); i >= 0 {
		s = s[:i]
	}
	return s
}

func (c *Contract) parseLemmaHead(s string) error {
	i := strings.Index(s, "(")
	j := strings.LastIndex(s, ")")
	if i < 0 || j < i {
		return fmt.Errorf("lemma head: want name(params)")
	}
	c.Key = "lemma." + strings.TrimSpace(s[:i])
	ps := strings.TrimSpace(s[i+1 : j])
	if ps == "" {
		return nil
	}
	for _, p := range strings.Split(ps, ",") {
		fs := strings.Fields(p)
		if len(fs) != 2 {
			return fmt.Errorf("lemma param %q: want 'name type'", p)
		}
		te, err := parseContractExpr(fs[1])
		if err != nil {
			return err
		}
		c.LParams = append(c.LParams, LemmaParam{fs[0], te})
	}
	return nil
}

func (c *Contract) addClause(kw, text, src string) error {
	mk := func(kind string, ord int) (*Clause, error) {
		e, err := parseContractExpr(text)
		if err != nil {
			return nil, fmt.Errorf("%s: %s: %v", src, kind, err)
		}
		return &Clause{Kind: kind, Text: text, Expr: e, Ord: ord, Src: src}, nil
	}
	switch kw {
	case "region":
		t := strings.TrimSpace(text)
		if len(t) < 2 || !strings.HasPrefix(t, "\"") || !strings.HasSuffix(t, "\"") {
			return fmt.Errorf("%s: region: want a quoted statement anchor", src)
		}
		c.RegionAnchor = t[1 : len(t)-1]
	case "returns":
		cl, err := mk("returns", len(c.Returns))
		if err != nil {
			return err
		}
		c.Returns = append(c.Returns, cl)
	case "requires":
		cl, err := mk("requires", len(c.Requires))
		if err != nil {
			return err
		}
		c.Requires = append(c.Requires, cl)
	case "ensures":
		cl, err := mk("ensures", len(c.Ensures))
		if err != nil {
			return err
		}
		c.Ensures = append(c.Ensures, cl)
	case "split":
		cl, err := mk("split", len(c.Split))
		if err != nil {
			return err
		}
		c.Split = append(c.Split, cl)
	case "modifies":
		if strings.TrimSpace(text) == "" || strings.TrimSpace(text) == "nothing" {
			return nil
		}
		for _, part := range splitTopLevel(text, ',') {
			e, err := parseContractExpr(part)
			if err != nil {
				return fmt.Errorf("%s: modifies: %v", src, err)
			}
			c.Modifies = append(c.Modifies, e)
			c.ModText = append(c.ModText, strings.TrimSpace(part))
		}
	case "loop":
		// "loop K: invariant E" | "loop K: modifies L"
		t := strings.TrimSpace(text)
		i := strings.Index(t, ":")
		if i < 0 {
			return fmt.Errorf("%s: loop clause: want 'loop K: invariant E'", src)
		}
		k, err := strconv.Atoi(strings.TrimSpace(t[:i]))
		if err != nil {
			return fmt.Errorf("%s: loop ordinal: %v", src, err)
		}
		rest := strings.TrimSpace(t[i+1:])
		switch {
		case strings.HasPrefix(rest, "invariant"):
			text = strings.TrimSpace(rest[len("invariant"):])
			cl, err := mk("invariant", len(c.LoopInv[k]))
			if err != nil {
				return err
			}
			c.LoopInv[k] = append(c.LoopInv[k], cl)
		case strings.HasPrefix(rest, "modifies"):
			for _, part := range splitTopLevel(strings.TrimSpace(rest[len("modifies"):]), ',') {
				e, err := parseContractExpr(part)
				if err != nil {
					return fmt.Errorf("%s: loop modifies: %v", src, err)
				}
				c.LoopMod[k] = append(c.LoopMod[k], e)
			}
		default:
			return fmt.Errorf("%s: loop clause: unknown %q", src, rest)
		}
	case "reveal":
		for _, n := range strings.FieldsFunc(text, func(r rune) bool { return r == ',' || r == ' ' }) {
			c.Reveal[n] = true
		}
	case "joinswitch":
		c.JoinSwitch = true
	case "axiom":
		// axiom "lean:<file>:<theorem>": E
		t := strings.TrimSpace(text)
		if !strings.HasPrefix(t, "\"") {
			return fmt.Errorf("%s: axiom: want a quoted reference \"lean:file:theorem\"", src)
		}
		end := strings.Index(t[1:], "\"")
		ref := t[1 : 1+end]
		rest := strings.TrimSpace(t[end+2:])
		// "def:<ghost function>: ..." introduces a recursive definition of a ghost function that occurs
		// nowhere else (a conservative extension); "lean:file:theorem" is a lemma proved in Lean
		if !strings.HasPrefix(rest, ":") || !(strings.HasPrefix(ref, "lean:") || strings.HasPrefix(ref, "def:")) {
			return fmt.Errorf("%s: axiom: want \"lean:file:theorem\": E or \"def:ghostFn: why\": E", src)
		}
		text = strings.TrimSpace(rest[1:])
		cl, err := mk("axiom", len(c.Axioms))
		if err != nil {
			return err
		}
		c.Axioms = append(c.Axioms, cl)
		c.AxiomRefs = append(c.AxiomRefs, ref)
	case "defbody":
		e, err := parseContractExpr(text)
		if err != nil {
			return fmt.Errorf("%s: def: %v", src, err)
		}
		c.DefBody = e
	case "assume":
		// assume "<stmt prefix>": E   -- a trusted assumption, listed in the evidence
		t := strings.TrimSpace(text)
		if !strings.HasPrefix(t, "\"") {
			return fmt.Errorf("%s: assume: want quoted statement anchor", src)
		}
		end := strings.Index(t[1:], "\"")
		if end < 0 {
			return fmt.Errorf("%s: assume: unterminated anchor", src)
		}
		anchor := t[1 : 1+end]
		rest := strings.TrimSpace(t[end+2:])
		var havoc []ast.Expr
		havocText := ""
		if strings.HasPrefix(rest, "havoc ") {
			// assume "<stmt>" havoc t1, t2: E -- the statement may change t1, t2 (modifies syntax) in ways
			// its callees' contracts do not describe; they are havocked, then E is assumed
			depth, cut := 0, -1
			for i, r := range rest {
				switch r {
				case '[', '(':
					depth++
				case ']', ')':
					depth--
				case ':':
					if depth == 0 && cut < 0 {
						cut = i
					}
				}
			}
			if cut < 0 {
				return fmt.Errorf("%s: assume ... havoc: missing ':'", src)
			}
			havocText = strings.TrimSpace(rest[6:cut])
			for _, part := range splitTopLevel(havocText, ',') {
				e, err := parseContractExpr(part)
				if err != nil {
					return fmt.Errorf("%s: assume havoc: %v", src, err)
				}
				havoc = append(havoc, e)
			}
			rest = rest[cut:]
		}
		if !strings.HasPrefix(rest, ":") {
			return fmt.Errorf("%s: assume: missing ':'", src)
		}
		text = strings.TrimSpace(rest[1:])
		cl, err := mk("assume", len(c.Assumes))
		if err != nil {
			return err
		}
		c.Assumes = append(c.Assumes, &Cut{Anchor: anchor, Reveal: map[string]bool{}, Clause: cl, Ord: len(c.Assumes), After: true, Havoc: havoc, HavocText: havocText})
	case "cut":
		// cut "<stmt prefix>" [reveal a, b]: E
		t := strings.TrimSpace(text)
		if !strings.HasPrefix(t, "\"") {
			return fmt.Errorf("%s: cut: want quoted statement anchor", src)
		}
		end := strings.Index(t[1:], "\"")
		if end < 0 {
			return fmt.Errorf("%s: cut: unterminated anchor", src)
		}
		anchor := t[1 : 1+end]
		rest := strings.TrimSpace(t[end+2:])
		cut := &Cut{Anchor: anchor, Reveal: map[string]bool{}, Ord: len(c.Cuts)}
		if strings.HasPrefix(rest, "reveal") || strings.HasPrefix(rest, "forget") {
			i := strings.Index(rest, ":")
			if i < 0 {
				return fmt.Errorf("%s: cut: missing ':'", src)
			}
			mode := ""
			for _, n := range strings.FieldsFunc(rest[:i], func(r rune) bool { return r == ',' || r == ' ' }) {
				switch {
				case n == "reveal" || n == "forget":
					mode = n
				case mode == "reveal":
					cut.Reveal[n] = true
				case mode == "forget":
					cut.Forget = append(cut.Forget, n)
				}
			}
			rest = rest[i:]
		}
		if !strings.HasPrefix(rest, ":") {
			return fmt.Errorf("%s: cut: missing ':'", src)
		}
		text = strings.TrimSpace(rest[1:])
		cl, err := mk("cut", cut.Ord)
		if err != nil {
			return err
		}
		cut.Clause = cl
		c.Cuts = append(c.Cuts, cut)
	case "inline":
		c.Inline = true
	case "trusted":
		c.Trusted = true
	case "pure":
		c.Pure = true
	case "mayalias":
		c.MayAlias = true
	case "maynil":
		for _, n := range strings.FieldsFunc(text, func(r rune) bool { return r == ',' || r == ' ' }) {
			c.MayNil[n] = true
		}
	case "mode":
		c.Mode = strings.TrimSpace(text)
	case "timeout":
		n, err := strconv.Atoi(strings.TrimSpace(text))
		if err != nil {
			return fmt.Errorf("%s: timeout: %v", src, err)
		}
		c.Timeout = n
	case "solvers":
		c.Solvers = strings.FieldsFunc(text, func(r rune) bool { return r == ',' || r == ' ' })
	default:
		return fmt.Errorf("%s: unknown clause %q", src, kw)
	}
	return nil
}

func splitTopLevel(s string, sep byte) []string {
	var out []string
	depth := 0
	last := 0
	for i := 0; i < len(s); i++ {
		switch s[i] {
		case '(', '[', '{':
			depth++
		case ')', ']', '}':
			depth--
		default:
			if s[i] == sep && depth == 0 {
				out = append(out, s[last:i])
				last = i + 1
			}
		}
	}
	out = append(out, s[last:])
	return out
}

// ---------- expression parser (Pratt)

type ctok struct {
	tok token.Token
	lit string
	pos int
}

const (
	tIMPLIES token.Token = token.Token(1000 + iota)
	tIFF
	tDCOLON
)

type cparser struct {
	toks []ctok
	i    int
	src  string
}

func parseContractExpr(src string) (e ast.Expr, err error) {
	defer func() {
		if r := recover(); r != nil {
			if pe, ok := r.(parseErr); ok {
				err = fmt.Errorf("%s in %q", string(pe), src)
				return
			}
			panic(r)
		}
	}()
	fset := token.NewFileSet()
	file := fset.AddFile("", fset.Base(), len(src))
	var s scanner.Scanner
	var serr error
	s.Init(file, []byte(src), func(pos token.Position, msg string) { serr = fmt.Errorf("%s", msg) }, 0)
	var toks []ctok
	for {
		pos, tok, lit := s.Scan()
		if tok == token.EOF {
			break
		}
		if tok == token.SEMICOLON && lit == "\n" {
			continue
		}
		toks = append(toks, ctok{tok, lit, int(pos) - file.Base()})
	}
	if serr != nil {
		return nil, serr
	}
	// merge multi-token operators
	var m []ctok
	for i := 0; i < len(toks); i++ {
		t := toks[i]
		adj := func(k int) bool {
			return i+k < len(toks) && toks[i+k].pos == toks[i+k-1].pos+len(tokText(toks[i+k-1]))
		}
		if t.tok == token.LEQ && adj(1) && toks[i+1].tok == token.ASSIGN && adj(2) && toks[i+2].tok == token.GTR {
			m = append(m, ctok{tIFF, "<==>", t.pos})
			i += 2
			continue
		}
		if t.tok == token.LSS && adj(1) && toks[i+1].tok == token.EQL && adj(2) && toks[i+2].tok == token.GTR {
			m = append(m, ctok{tIFF, "<==>", t.pos})
			i += 2
			continue
		}
		if t.tok == token.EQL && adj(1) && toks[i+1].tok == token.GTR {
			m = append(m, ctok{tIMPLIES, "==>", t.pos})
			i++
			continue
		}
		if t.tok == token.COLON && adj(1) && toks[i+1].tok == token.COLON {
			m = append(m, ctok{tDCOLON, "::", t.pos})
			i++
			continue
		}
		m = append(m, t)
	}
	p := &cparser{toks: m, src: src}
	e = p.expr(0)
	if p.i < len(p.toks) {
		p.fail("unexpected token %q", tokText(p.toks[p.i]))
	}
	return e, nil
}

func tokText(t ctok) string {
	if t.lit != "" {
		return t.lit
	}
	return t.tok.String()
}

type parseErr string

func (p *cparser) fail(f string, a ...interface{}) {
	panic(parseErr(fmt.Sprintf(f, a...)))
}

func (p *cparser) peek() ctok {
	if p.i < len(p.toks) {
		return p.toks[p.i]
	}
	return ctok{tok: token.EOF}
}
func (p *cparser) next() ctok {
	t := p.peek()
	p.i++
	return t
}
func (p *cparser) expect(tok token.Token) ctok {
	t := p.next()
	if t.tok != tok {
		p.fail("expected %v, got %q", tok, tokText(t))
	}
	return t
}

func call(name string, args ...ast.Expr) ast.Expr {
	return &ast.CallExpr{Fun: &ast.Ident{Name: name}, Args: args}
}

// precedences: 1 iff, 2 implies, 3 ||, 4 &&, 5 cmp, 6 add, 7 mul
func binPrec(t token.Token) int {
	switch t {
	case tIFF:
		return 1
	case tIMPLIES:
		return 2
	case token.LOR:
		return 3
	case token.LAND:
		return 4
	case token.EQL, token.NEQ, token.LSS, token.LEQ, token.GTR, token.GEQ:
		return 5
	case token.ADD, token.SUB, token.OR, token.XOR:
		return 6
	case token.MUL, token.QUO, token.REM, token.SHL, token.SHR, token.AND, token.AND_NOT:
		return 7
	}
	return 0
}

func (p *cparser) expr(minPrec int) ast.Expr {
	// quantifiers
	if t := p.peek(); t.tok == token.IDENT && (t.lit == "forall" || t.lit == "exists") {
		p.next()
		var args []ast.Expr
		for {
			var names []string
			names = append(names, p.expect(token.IDENT).lit)
			for p.peek().tok == token.COMMA {
				p.next()
				names = append(names, p.expect(token.IDENT).lit)
			}
			typ := p.typeExpr()
			for _, n := range names {
				args = append(args, &ast.Ident{Name: n}, typ)
			}
			if p.peek().tok == token.COMMA {
				p.next()
				continue
			}
			break
		}
		p.expect(tDCOLON)
		body := p.expr(0)
		args = append(args, body)
		return call("$"+t.lit, args...)
	}
	lhs := p.unary()
	for {
		t := p.peek()
		prec := binPrec(t.tok)
		if prec == 0 || prec < minPrec {
			return lhs
		}
		p.next()
		switch t.tok {
		case tIMPLIES:
			rhs := p.expr(prec) // right assoc
			lhs = call("$implies", lhs, rhs)
		case tIFF:
			rhs := p.expr(prec + 1)
			lhs = call("$iff", lhs, rhs)
		default:
			rhs := p.expr(prec + 1)
			lhs = &ast.BinaryExpr{X: lhs, Op: t.tok, Y: rhs}
		}
	}
}

func (p *cparser) typeExpr() ast.Expr {
	t := p.next()
	switch t.tok {
	case token.IDENT:
		var e ast.Expr = &ast.Ident{Name: t.lit}
		if p.peek().tok == token.PERIOD {
			p.next()
			e = &ast.SelectorExpr{X: e, Sel: &ast.Ident{Name: p.expect(token.IDENT).lit}}
		}
		return e
	case token.LBRACK:
		if p.peek().tok == token.RBRACK {
			p.next()
			return &ast.ArrayType{Elt: p.typeExpr()}
		}
		n := p.expr(0)
		p.expect(token.RBRACK)
		return &ast.ArrayType{Len: n, Elt: p.typeExpr()}
	case token.MUL:
		return &ast.StarExpr{X: p.typeExpr()}
	}
	p.fail("bad type expression at %q", tokText(t))
	return nil
}

func (p *cparser) unary() ast.Expr {
	t := p.peek()
	switch t.tok {
	case token.NOT, token.SUB, token.XOR, token.ADD:
		p.next()
		return &ast.UnaryExpr{Op: t.tok, X: p.unary()}
	case token.MUL:
		p.next()
		return &ast.StarExpr{X: p.unary()}
	case token.AND:
		p.next()
		return &ast.UnaryExpr{Op: token.AND, X: p.unary()}
	}
	return p.postfix(p.primary())
}

func (p *cparser) primary() ast.Expr {
	t := p.next()
	switch t.tok {
	case token.IDENT:
		return &ast.Ident{Name: t.lit}
	case token.INT, token.CHAR, token.STRING, token.FLOAT:
		return &ast.BasicLit{Kind: t.tok, Value: t.lit}
	case token.LPAREN:
		e := p.expr(0)
		p.expect(token.RPAREN)
		return &ast.ParenExpr{X: e}
	case token.LBRACK:
		// array/slice type for conversions or composite literals: []T{...}
		p.i--
		return p.typeExpr()
	}
	p.fail("unexpected token %q", tokText(t))
	return nil
}

func (p *cparser) postfix(e ast.Expr) ast.Expr {
	for {
		t := p.peek()
		switch t.tok {
		case token.PERIOD:
			p.next()
			n := p.next()
			if n.tok != token.IDENT && n.tok != token.INT {
				p.fail("expected selector, got %q", tokText(n))
			}
			e = &ast.SelectorExpr{X: e, Sel: &ast.Ident{Name: n.lit}}
		case token.LPAREN:
			p.next()
			var args []ast.Expr
			if p.peek().tok == token.MUL && p.i+1 < len(p.toks) && p.toks[p.i+1].tok == token.RPAREN {
				p.next()
				args = append(args, &ast.Ident{Name: "$any"})
			}
			for p.peek().tok != token.RPAREN {
				args = append(args, p.expr(0))
				if p.peek().tok == token.COMMA {
					p.next()
				} else {
					break
				}
			}
			p.expect(token.RPAREN)
			e = &ast.CallExpr{Fun: e, Args: args}
		case token.LBRACK:
			p.next()
			if p.peek().tok == token.MUL && p.i+1 < len(p.toks) && p.toks[p.i+1].tok == token.RBRACK {
				p.next()
				p.next()
				e = &ast.IndexExpr{X: e, Index: &ast.Ident{Name: "$all"}}
				continue
			}
			var lo, hi, mx ast.Expr
			isSlice := false
			if p.peek().tok != token.COLON {
				lo = p.expr(0)
			}
			if p.peek().tok == token.COLON {
				isSlice = true
				p.next()
				if p.peek().tok != token.RBRACK && p.peek().tok != token.COLON {
					hi = p.expr(0)
				}
				if p.peek().tok == token.COLON {
					p.next()
					mx = p.expr(0)
				}
			}
			p.expect(token.RBRACK)
			if isSlice {
				e = &ast.SliceExpr{X: e, Low: lo, High: hi, Max: mx, Slice3: mx != nil}
			} else {
				e = &ast.IndexExpr{X: e, Index: lo}
			}
		case token.LBRACE:
			// composite literal T{...} only directly after a type-like expr
			if !typeLike(e) {
				return e
			}
			p.next()
			var elts []ast.Expr
			for p.peek().tok != token.RBRACE {
				x := p.expr(0)
				if p.peek().tok == token.COLON {
					p.next()
					v := p.expr(0)
					x = &ast.KeyValueExpr{Key: x, Value: v}
				}
				elts = append(elts, x)
				if p.peek().tok == token.COMMA {
					p.next()
				} else {
					break
				}
			}
			p.expect(token.RBRACE)
			e = &ast.CompositeLit{Type: e, Elts: elts}
		default:
			return e
		}
	}
}

func typeLike(e ast.Expr) bool {
	switch x := e.(type) {
	case *ast.Ident:
		return len(x.Name) > 0 && (x.Name[0] >= 'A' && x.Name[0] <= 'Z' || strings.HasSuffix(x.Name, "T"))
	case *ast.SelectorExpr:
		_, ok := x.X.(*ast.Ident)
		return ok && len(x.Sel.Name) > 0 && x.Sel.Name[0] >= 'A' && x.Sel.Name[0] <= 'Z'
	case *ast.ArrayType:
		return true
	}
	return false
}
