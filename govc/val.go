package main

// Symbolic values, shapes (type structure), locations, state and heap model.

import (
	"go/ast"
	"fmt"
	"go/constant"
	"go/token"
	"go/types"
	"os"
	"regexp"
	"sort"
	"strings"
)

// ---------- shapes

type ShapeKind int

const (
	ShScalar ShapeKind = iota
	ShStruct
	ShArray
	ShSlice
	ShPtr
	ShOpaque // interface, map, chan, func, string, anything else: (id, isnil)
)

type Shape struct {
	Kind   ShapeKind
	Typ    types.Type
	Sort   *Sort // scalars
	Signed bool
	Fields []*Shape
	FNames []string
	Elem   *Shape
	N      int64
}

type Engine struct {
	C        *TermCtx
	MathInts bool // all integer types as mathematical Int (mode "math")
	Hybrid   bool // int/uint as mathematical Int, sized integers as bit-vectors (mode "hybrid")
	shapes   map[string]*Shape
	nnDone   map[*Shape]bool
	nonNegKeys map[string]bool // heap keys holding declared non-negative fields
	NonNeg   map[string]bool // "pkgpath.Type.Field": declared non-negative (trusted type invariant)
	cellID   int
}

// IntIdx: indices, lengths and Go int values are mathematical integers.
func (e *Engine) IntIdx() bool { return e.MathInts || e.Hybrid }

func (e *Engine) IdxSort() *Sort {
	if e.IntIdx() {
		return IntSort
	}
	return BVSort(64)
}

var aliasRe = regexp.MustCompile(`\b(byte|rune|any)\b`)

func typeKey(t types.Type) string {
	s := types.TypeString(t, func(p *types.Package) string { return p.Path() })
	return aliasRe.ReplaceAllStringFunc(s, func(m string) string {
		switch m {
		case "byte":
			return "uint8"
		case "rune":
			return "int32"
		}
		return "interface{}"
	})
}

func (e *Engine) shapeOf(t types.Type) *Shape {
	k := typeKey(t)
	if s, ok := e.shapes[k]; ok {
		return s
	}
	s := &Shape{Typ: t}
	e.shapes[k] = s
	switch u := t.Underlying().(type) {
	case *types.Basic:
		info := u.Info()
		switch {
		case info&types.IsBoolean != 0:
			s.Kind, s.Sort = ShScalar, BoolSort
		case info&types.IsInteger != 0:
			s.Kind = ShScalar
			s.Signed = info&types.IsUnsigned == 0
			if e.MathInts || e.Hybrid && (u.Kind() == types.Int || u.Kind() == types.Uint || u.Kind() == types.UntypedInt) {
				s.Sort = IntSort
			} else {
				s.Sort = BVSort(basicWidth(u))
			}
		default:
			s.Kind = ShOpaque
		}
	case *types.Struct:
		s.Kind = ShStruct
		for i := 0; i < u.NumFields(); i++ {
			s.Fields = append(s.Fields, e.shapeOf(u.Field(i).Type()))
			s.FNames = append(s.FNames, u.Field(i).Name())
		}
	case *types.Array:
		s.Kind = ShArray
		s.N = u.Len()
		s.Elem = e.shapeOf(u.Elem())
	case *types.Slice:
		s.Kind = ShSlice
		s.Elem = e.shapeOf(u.Elem())
	case *types.Pointer:
		s.Kind = ShPtr
		// Elem resolved lazily (recursive types)
	default:
		s.Kind = ShOpaque
	}
	return s
}

func (e *Engine) ptrElemShape(s *Shape) *Shape {
	return e.shapeOf(s.Typ.Underlying().(*types.Pointer).Elem())
}

func basicWidth(b *types.Basic) int {
	switch b.Kind() {
	case types.Int8, types.Uint8:
		return 8
	case types.Int16, types.Uint16:
		return 16
	case types.Int32, types.Uint32:
		return 32
	case types.Int64, types.Uint64, types.Int, types.Uint, types.Uintptr, types.UntypedInt, types.UntypedRune:
		return 64
	}
	return 64
}

// leaf descriptor
type LeafDesc struct {
	Path string
	Sort *Sort
}

func (e *Engine) leafDescs(s *Shape) []LeafDesc {
	switch s.Kind {
	case ShScalar:
		return []LeafDesc{{"", s.Sort}}
	case ShStruct:
		var out []LeafDesc
		for i, f := range s.Fields {
			for _, l := range e.leafDescs(f) {
				out = append(out, LeafDesc{"." + s.FNames[i] + l.Path, l.Sort})
			}
		}
		return out
	case ShArray:
		var out []LeafDesc
		for _, l := range e.leafDescs(s.Elem) {
			out = append(out, LeafDesc{"[]" + l.Path, ArraySort(e.IdxSort(), l.Sort)})
		}
		return out
	case ShSlice:
		return []LeafDesc{{"#ref", IntSort}, {"#off", e.IdxSort()}, {"#len", e.IdxSort()}, {"#cap", e.IdxSort()}}
	case ShPtr:
		return []LeafDesc{{"#ptr", IntSort}, {"#nil", BoolSort}}
	default:
		return []LeafDesc{{"#id", IntSort}, {"#nil", BoolSort}}
	}
}

// ---------- values

type Val interface{}

type Scalar struct {
	T   *Term
	Typ types.Type
}

type UntypedConst struct{ V constant.Value }

type StructVal struct {
	Sh *Shape
	F  []Val
}

// ArrVal is a fixed array value; L holds one SMT array per leaf of the element shape.
type ArrVal struct {
	Sh *Shape
	L  []*Term
}

type SliceVal struct {
	Sh                 *Shape
	Ref, Off, Len, Cap *Term
}

// PtrVal: static pointer (Loc != nil) or symbolic reference into the object heap.
type PtrVal struct {
	Sh  *Shape
	Loc Loc
	Ref *Term // Int
	Nil *Term // Bool
}

type OpaqueVal struct {
	Sh  *Shape
	ID  *Term
	Nil *Term
}

// BoxedArr: the content of an array variable that lives in the slice heap
// (because it is sliced or its elements' addresses are taken).
type BoxedArr struct {
	Sh  *Shape
	Ref *Term
}

type TupleVal struct{ Vs []Val }

// FuncRef: a reference to a declared function or method value (for calls in contract expressions).
type FuncRef struct {
	Fn   *types.Func
	Recv Val
}

// PkgRef: an imported package name in a contract expression.
type PkgRef struct{ Pkg *types.Package }

// TypeRef: a type used as a conversion in an expression.
type TypeRef struct{ T types.Type }

func (e *Engine) leaves(v Val) []*Term {
	switch x := v.(type) {
	case Scalar:
		return []*Term{x.T}
	case StructVal:
		var out []*Term
		for _, f := range x.F {
			out = append(out, e.leaves(f)...)
		}
		return out
	case ArrVal:
		return x.L
	case SliceVal:
		return []*Term{x.Ref, x.Off, x.Len, x.Cap}
	case PtrVal:
		if x.Loc != nil {
			panic(unsupportedf(token.NoPos, "static pointer stored in aggregate / compared / merged"))
		}
		return []*Term{x.Ref, x.Nil}
	case OpaqueVal:
		return []*Term{x.ID, x.Nil}
	case TupleVal:
		var out []*Term
		for _, f := range x.Vs {
			out = append(out, e.leaves(f)...)
		}
		return out
	}
	panic(fmt.Sprintf("leaves: unexpected value %T", v))
}

func (e *Engine) fromLeaves(s *Shape, ts []*Term) (Val, []*Term) {
	switch s.Kind {
	case ShScalar:
		return Scalar{ts[0], s.Typ}, ts[1:]
	case ShStruct:
		sv := StructVal{Sh: s}
		for _, f := range s.Fields {
			var v Val
			v, ts = e.fromLeaves(f, ts)
			sv.F = append(sv.F, v)
		}
		return sv, ts
	case ShArray:
		n := len(e.leafDescs(s.Elem))
		return ArrVal{Sh: s, L: append([]*Term{}, ts[:n]...)}, ts[n:]
	case ShSlice:
		return SliceVal{Sh: s, Ref: ts[0], Off: ts[1], Len: ts[2], Cap: ts[3]}, ts[4:]
	case ShPtr:
		return PtrVal{Sh: s, Ref: ts[0], Nil: ts[1]}, ts[2:]
	default:
		return OpaqueVal{Sh: s, ID: ts[0], Nil: ts[1]}, ts[2:]
	}
}

func (e *Engine) valFromLeaves(s *Shape, ts []*Term) Val {
	v, rest := e.fromLeaves(s, ts)
	if len(rest) != 0 {
		panic("valFromLeaves: leftover leaves")
	}
	return v
}

func (e *Engine) zeroTerm(s *Sort) *Term {
	switch s.Kind {
	case SBool:
		return e.C.False()
	case SInt:
		return e.C.Inti(0)
	case SBV:
		return e.C.BVu(0, s.W)
	case SArray:
		return e.C.ConstArray(s, e.zeroTerm(s.Elem))
	}
	panic("zeroTerm")
}

func (e *Engine) zeroVal(s *Shape) Val {
	ds := e.leafDescs(s)
	ts := make([]*Term, len(ds))
	for i, d := range ds {
		switch {
		case d.Path == "#nil" || strings.HasSuffix(d.Path, "#nil"):
			// nil flag: zero value is nil -> true (possibly lifted)
			ts[i] = e.liftConst(d.Sort, e.C.True())
		default:
			ts[i] = e.zeroTerm(d.Sort)
		}
	}
	return e.valFromLeaves(s, ts)
}

func (e *Engine) liftConst(s *Sort, v *Term) *Term {
	if s.Kind == SArray {
		return e.C.ConstArray(s, e.liftConst(s.Elem, v))
	}
	return v
}

// freshVal creates an unconstrained symbolic value; wf collects well-formedness facts
// (slice header ranges, math-mode integer ranges).
func (e *Engine) freshVal(s *Shape, name string, wf *[]*Term) Val {
	return e.freshValIn(s, name, wf, false)
}

// freshInput is freshVal for function inputs: their refs are pre-existing (<= 0).
func (e *Engine) freshInput(s *Shape, name string, wf *[]*Term) Val {
	return e.freshValIn(s, name, wf, true)
}

func (e *Engine) freshValIn(s *Shape, name string, wf *[]*Term, input bool) Val {
	ds := e.leafDescs(s)
	ts := make([]*Term, len(ds))
	for i, d := range ds {
		ts[i] = e.C.Fresh(name+d.Path, d.Sort)
	}
	v := e.valFromLeaves(s, ts)
	if wf != nil {
		e.wellFormed(v, wf, input)
	}
	return v
}

const maxLenBits = 40 // assumed bound on slice extents: off+cap < 2^40 (stated assumption)

func (e *Engine) wellFormed(v Val, wf *[]*Term, input bool) {
	c := e.C
	switch x := v.(type) {
	case Scalar:
		if x.T.Sort == IntSort {
			if b, ok := x.Typ.Underlying().(*types.Basic); ok && b.Info()&types.IsInteger != 0 {
				w := basicWidth(b)
				lo, hi := intRange(b, w)
				*wf = append(*wf, c.ILe(c.Int(lo), x.T), c.ILe(x.T, c.Int(hi)))
			}
		}
	case StructVal:
		for i, f := range x.F {
			e.wellFormed(f, wf, input)
			if input && e.nonNegField(x.Sh, i) {
				if s, ok := f.(Scalar); ok {
					*wf = append(*wf, e.geZero(s.T))
				}
			}
		}
	case PtrVal:
		if input && x.Loc == nil {
			*wf = append(*wf, c.ILe(x.Ref, c.Inti(0))) // pre-existing object
			*wf = append(*wf, c.ILt(c.Inti(localIDBase), x.Ref))
		}
	case OpaqueVal:
		if input {
			// identities at or below localIDBase are reserved for local variables whose address is taken
			*wf = append(*wf, c.ILt(c.Inti(localIDBase), x.ID))
		}
	case SliceVal:
		if e.IntIdx() {
			z := c.Inti(0)
			lim := c.Inti(1 << maxLenBits)
			*wf = append(*wf, c.ILe(z, x.Off), c.ILe(x.Off, lim), c.ILe(z, x.Len), c.ILe(x.Len, x.Cap), c.ILe(x.Cap, lim))
			if input {
				*wf = append(*wf, c.ILe(x.Ref, z))
			}
		} else {
			lim := c.BVu(1<<maxLenBits, 64)
			*wf = append(*wf, c.BVUle(x.Off, lim), c.BVUle(x.Len, x.Cap), c.BVUle(x.Cap, lim))
			if input {
				*wf = append(*wf, c.ILe(x.Ref, c.Inti(0)))
			}
		}
	}
}

// ---------- locations

type Loc interface{}

type Cell struct {
	Name string
	Sh   *Shape
	id   int
}

type VarLoc struct{ C *Cell }
type FieldLoc struct {
	Base Loc
	I    int
	Sh   *Shape // shape of the field
}
type IndexLoc struct { // element of a fixed array held at Base
	Base Loc
	Idx  *Term
	Sh   *Shape // element shape
}
type HeapElemLoc struct { // element of a slice backing row
	Sh  *Shape // element shape
	Ref *Term
	Idx *Term // absolute index (off + i)
}
type HeapObjLoc struct { // pointee of a symbolic pointer
	Sh  *Shape
	Ref *Term
}

func (e *Engine) newCell(name string, sh *Shape) *Cell {
	e.cellID++
	return &Cell{Name: name, Sh: sh, id: e.cellID}
}

// ---------- state

type Ctl int

const (
	CtlNormal Ctl = iota
	CtlBreak
	CtlContinue
	CtlReturn
	CtlDead // panic / infeasible: path ends
)

type State struct {
	vals    map[*Cell]Val
	heaps   map[string]*Term
	pc      []*Term
	ctl     Ctl
	label   string
	results []Val
	retPos  token.Pos // position of the return statement this path left the function through
	// write log (for loop havoc discovery)
	log *WriteLog
	// allocation watermark (Int term): references allocated so far are in (0, alloc)
	alloc *Term
	// deferred calls registered on this path (run when their frame returns, last first)
	defers []deferred
}

type deferred struct {
	fr   *Frame
	call *ast.CallExpr
}

type WriteLog struct {
	cells map[*Cell]bool    // cells written (at all)
	paths map[*Cell][][]int // field paths written; a nil path = whole cell
	heaps map[string]bool
	allocs bool
}

func newWriteLog() *WriteLog {
	return &WriteLog{cells: map[*Cell]bool{}, paths: map[*Cell][][]int{}, heaps: map[string]bool{}}
}

func (l *WriteLog) note(loc Loc) {
	switch x := loc.(type) {
	case VarLoc:
		l.cells[x.C] = true
		l.paths[x.C] = append(l.paths[x.C], nil)
	case FieldLoc, IndexLoc:
		// find root cell and the field path down to the first non-field step
		var path []int
		cur := loc
		for {
			switch y := cur.(type) {
			case FieldLoc:
				path = append([]int{y.I}, path...)
				cur = y.Base
				continue
			case IndexLoc:
				path = nil // element of an array field: the whole array (sub)value is written
				cur = y.Base
				continue
			case VarLoc:
				l.cells[y.C] = true
				if len(path) == 0 {
					l.paths[y.C] = append(l.paths[y.C], nil)
				} else {
					l.paths[y.C] = append(l.paths[y.C], path)
				}
			}
			break
		}
	}
}

func (st *State) fork() *State {
	n := &State{vals: make(map[*Cell]Val, len(st.vals)), heaps: make(map[string]*Term, len(st.heaps)), ctl: st.ctl, label: st.label, results: st.results, log: st.log, alloc: st.alloc, retPos: st.retPos, defers: append([]deferred{}, st.defers...)}
	for k, v := range st.vals {
		n.vals[k] = v
	}
	for k, v := range st.heaps {
		n.heaps[k] = v
	}
	n.pc = append([]*Term{}, st.pc...)
	return n
}

func (st *State) assume(t *Term) {
	if t.IsTrue() {
		return
	}
	if t.Op == "and" {
		for _, a := range t.Args {
			st.assume(a)
		}
		return
	}
	st.pc = append(st.pc, t)
}

// heap keys
func sliceHeapKey(elem *Shape, leaf LeafDesc) string { return "S:" + typeKey(elem.Typ) + leaf.Path }
func objHeapKey(elem *Shape, leaf LeafDesc) string   { return "O:" + typeKey(elem.Typ) + leaf.Path }

func (e *Engine) heap(st *State, key string, s *Sort) *Term {
	if h, ok := st.heaps[key]; ok {
		return h
	}
	_, existed := e.C.decls["H0$"+key]
	h := e.C.Var("H0$"+key, s)
	st.heaps[key] = h
	if !existed && strings.HasSuffix(key, "#ref") && strings.HasPrefix(key, "S:") {
		e.sliceHeapAxiom(strings.TrimSuffix(key, "#ref"))
	}
	if !existed && strings.HasSuffix(key, "#ref") && strings.HasPrefix(key, "O:") {
		e.objSliceAxiom(strings.TrimSuffix(key, "#ref"))
	}
	// identity axioms only make sense for leaves that hold one reference (not arrays of references)
	scalarRef := func() bool {
		t := h.Sort
		if t == nil || t.Kind != SArray {
			return false
		}
		if strings.HasPrefix(key, "S:") {
			return t.Elem != nil && t.Elem.Kind == SArray && t.Elem.Elem == IntSort
		}
		return t.Elem == IntSort
	}
	if !existed && (strings.HasSuffix(key, "#ptr") || strings.HasSuffix(key, "#id")) && scalarRef() {
		// identities stored in the initial heap are not those reserved for local variables
		c := e.C
		r := c.Bound("r", IntSort)
		if strings.HasPrefix(key, "S:") {
			j := c.Bound("j", e.IdxSort())
			c.Axioms = append(c.Axioms, c.Forall([]*Term{r, j}, c.ILt(c.Inti(localIDBase), c.Select(c.Select(h, r), j))))
		} else if strings.HasPrefix(key, "O:") {
			c.Axioms = append(c.Axioms, c.Forall([]*Term{r}, c.ILt(c.Inti(localIDBase), c.Select(h, r))))
		}
	}
	if !existed && strings.HasSuffix(key, "#ptr") && scalarRef() {
		// pointers stored in the initial heap refer to pre-existing objects
		c := e.C
		r := c.Bound("r", IntSort)
		if strings.HasPrefix(key, "S:") {
			j := c.Bound("j", e.IdxSort())
			if guardedPtrAxiom(key) {
				c.Axioms = append(c.Axioms, c.Forall([]*Term{r, j}, c.Implies(c.ILe(r, c.Inti(0)), c.ILe(c.Select(c.Select(h, r), j), c.Inti(0)))))
			} else {
				c.Axioms = append(c.Axioms, c.Forall([]*Term{r, j}, c.ILe(c.Select(c.Select(h, r), j), c.Inti(0))))
			}
		} else if strings.HasPrefix(key, "O:") && !guardedPtrAxiom(key) {
			c.Axioms = append(c.Axioms, c.Forall([]*Term{r}, c.ILe(c.Select(h, r), c.Inti(0))))
		} else if strings.HasPrefix(key, "O:") {
			// only pre-existing objects (r <= 0): the initial heap at a reference allocated later is
			// unconstrained (a trusted contract may describe the fields of the fresh object it returns)
			c.Axioms = append(c.Axioms, c.Forall([]*Term{r}, c.Implies(c.ILe(r, c.Inti(0)), c.ILe(c.Select(h, r), c.Inti(0)))))
		}
	}
	if !existed && e.nonNegKeys[key] {
		c := e.C
		r := c.Bound("r", IntSort)
		if strings.HasPrefix(key, "S:") {
			j := c.Bound("j", e.IdxSort())
			c.Axioms = append(c.Axioms, c.Forall([]*Term{r, j}, e.geZero(c.Select(c.Select(h, r), j))))
		} else {
			c.Axioms = append(c.Axioms, c.Forall([]*Term{r}, e.geZero(c.Select(h, r))))
		}
	}
	return h
}

// guardedPtrAxiom: heaps of types declared `symbolic` hold objects that trusted contracts create
// and describe (a fresh gate pointing to fresh wires): the "initial heap holds only pre-existing
// references" axiom is then restricted to pre-existing objects. For the other heaps the unguarded
// form is kept (cheaper for the solvers); the return-path reachability cover detects a contract
// that contradicts it.
func guardedPtrAxiom(key string) bool {
	if os.Getenv("GOVC_NOGUARD") != "" {
		return false
	}
	return true
}

func guardedPtrAxiomOld(key string) bool {
	for t := range symbolicTypes {
		if strings.Contains(key, t) {
			return true
		}
	}
	return false
}

// localIDBase: identities at or below this value denote local variables whose address is taken
// (ptrIdentity); input references and identities are above it.
const localIDBase = -(int64(1) << 40)

func (e *Engine) geZero(t *Term) *Term {
	if t.Sort == IntSort {
		return e.C.ILe(e.C.Inti(0), t)
	}
	return e.C.BVSle(e.C.BVu(0, t.Sort.W), t)
}

func (e *Engine) nonNegField(sh *Shape, i int) bool {
	if e.NonNeg == nil {
		return false
	}
	n, ok := sh.Typ.(*types.Named)
	if !ok || n.Obj().Pkg() == nil {
		return false
	}
	return e.NonNeg[n.Obj().Pkg().Path()+"."+n.Obj().Name()+"."+sh.FNames[i]]
}

// nonNegLeafPaths: leaf paths of shape sh whose value is a declared non-negative field.
func (e *Engine) nonNegLeafPaths(sh *Shape, prefix string, out map[string]bool) {
	if sh.Kind != ShStruct {
		return
	}
	for i, f := range sh.Fields {
		p := prefix + "." + sh.FNames[i]
		if f.Kind == ShScalar && e.nonNegField(sh, i) {
			out[p] = true
		}
		e.nonNegLeafPaths(f, p, out)
	}
}

// objSliceAxiom: slice-typed fields of objects in the initial heap are well formed and pre-existing.
func (e *Engine) objSliceAxiom(prefix string) {
	c := e.C
	hs := ArraySort(IntSort, IntSort)
	hi := ArraySort(IntSort, e.IdxSort())
	ref := c.Var("H0$"+prefix+"#ref", hs)
	off := c.Var("H0$"+prefix+"#off", hi)
	ln := c.Var("H0$"+prefix+"#len", hi)
	cp := c.Var("H0$"+prefix+"#cap", hi)
	r := c.Bound("r", IntSort)
	at := func(h *Term) *Term { return c.Select(h, r) }
	var body *Term
	if e.IntIdx() {
		z := c.Inti(0)
		lim := c.Inti(1 << maxLenBits)
		body = c.And(c.Implies(c.ILe(r, c.Inti(0)), c.ILe(at(ref), z)), c.ILe(z, at(off)), c.ILe(at(off), lim), c.ILe(z, at(ln)), c.ILe(at(ln), at(cp)), c.ILe(at(cp), lim))
	} else {
		lim := c.BVu(1<<maxLenBits, 64)
		body = c.And(c.Implies(c.ILe(r, c.Inti(0)), c.ILe(at(ref), c.Inti(0))), c.BVUle(at(off), lim), c.BVUle(at(ln), at(cp)), c.BVUle(at(cp), lim))
	}
	c.Axioms = append(c.Axioms, c.Forall([]*Term{r}, body))
}

// sliceHeapAxiom: slice headers stored in the initial heap are well formed and refer to
// pre-existing backing arrays (ref <= 0).
func (e *Engine) sliceHeapAxiom(prefix string) {
	c := e.C
	hs := ArraySort(IntSort, ArraySort(e.IdxSort(), IntSort))
	hi := ArraySort(IntSort, ArraySort(e.IdxSort(), e.IdxSort()))
	ref := c.Var("H0$"+prefix+"#ref", hs)
	off := c.Var("H0$"+prefix+"#off", hi)
	ln := c.Var("H0$"+prefix+"#len", hi)
	cp := c.Var("H0$"+prefix+"#cap", hi)
	r := c.Bound("r", IntSort)
	j := c.Bound("j", e.IdxSort())
	at := func(h *Term) *Term { return c.Select(c.Select(h, r), j) }
	var body *Term
	if e.IntIdx() {
		z := c.Inti(0)
		lim := c.Inti(1 << maxLenBits)
		body = c.And(c.Implies(c.ILe(r, c.Inti(0)), c.ILe(at(ref), z)), c.ILe(z, at(off)), c.ILe(at(off), lim), c.ILe(z, at(ln)), c.ILe(at(ln), at(cp)), c.ILe(at(cp), lim))
	} else {
		lim := c.BVu(1<<maxLenBits, 64)
		body = c.And(c.Implies(c.ILe(r, c.Inti(0)), c.ILe(at(ref), c.Inti(0))), c.BVUle(at(off), lim), c.BVUle(at(ln), at(cp)), c.BVUle(at(cp), lim))
	}
	c.Axioms = append(c.Axioms, c.Forall([]*Term{r, j}, body))
}

func (e *Engine) sliceHeapSort(leaf LeafDesc) *Sort {
	return ArraySort(IntSort, ArraySort(e.IdxSort(), leaf.Sort))
}
func (e *Engine) objHeapSort(leaf LeafDesc) *Sort { return ArraySort(IntSort, leaf.Sort) }

func (e *Engine) registerNonNeg(elem *Shape, slice bool) {
	if e.NonNeg == nil || e.nnDone[elem] {
		return
	}
	if e.nnDone == nil {
		e.nnDone = map[*Shape]bool{}
		e.nonNegKeys = map[string]bool{}
	}
	e.nnDone[elem] = true
	paths := map[string]bool{}
	e.nonNegLeafPaths(elem, "", paths)
	for p := range paths {
		if slice {
			e.nonNegKeys["S:"+typeKey(elem.Typ)+p] = true
		}
		e.nonNegKeys["O:"+typeKey(elem.Typ)+p] = true
	}
}

func (e *Engine) heapReadElem(st *State, elem *Shape, ref, idx *Term) Val {
	e.registerNonNeg(elem, true)
	ds := e.leafDescs(elem)
	ts := make([]*Term, len(ds))
	for i, d := range ds {
		h := e.heap(st, sliceHeapKey(elem, d), e.sliceHeapSort(d))
		ts[i] = e.C.Select(e.C.Select(h, ref), idx)
	}
	return e.valFromLeaves(elem, ts)
}

func (e *Engine) heapWriteElem(st *State, elem *Shape, ref, idx *Term, v Val) {
	ds := e.leafDescs(elem)
	ls := e.leaves(v)
	for i, d := range ds {
		key := sliceHeapKey(elem, d)
		h := e.heap(st, key, e.sliceHeapSort(d))
		row := e.C.Select(h, ref)
		st.heaps[key] = e.C.Store(h, ref, e.C.Store(row, idx, ls[i]))
		if st.log != nil {
			st.log.heaps[key] = true
		}
	}
}

// heapRows returns the backing rows (one per leaf) of ref.
func (e *Engine) heapRows(st *State, elem *Shape, ref *Term) []*Term {
	ds := e.leafDescs(elem)
	ts := make([]*Term, len(ds))
	for i, d := range ds {
		h := e.heap(st, sliceHeapKey(elem, d), e.sliceHeapSort(d))
		ts[i] = e.C.Select(h, ref)
	}
	return ts
}

func (e *Engine) heapSetRows(st *State, elem *Shape, ref *Term, rows []*Term) {
	ds := e.leafDescs(elem)
	for i, d := range ds {
		key := sliceHeapKey(elem, d)
		h := e.heap(st, key, e.sliceHeapSort(d))
		st.heaps[key] = e.C.Store(h, ref, rows[i])
		if st.log != nil {
			st.log.heaps[key] = true
		}
	}
}

func (e *Engine) objRead(st *State, sh *Shape, ref *Term) Val {
	e.registerNonNeg(sh, false)
	ds := e.leafDescs(sh)
	ts := make([]*Term, len(ds))
	for i, d := range ds {
		h := e.heap(st, objHeapKey(sh, d), e.objHeapSort(d))
		ts[i] = e.C.Select(h, ref)
	}
	return e.valFromLeaves(sh, ts)
}

func (e *Engine) objWrite(st *State, sh *Shape, ref *Term, v Val) {
	ds := e.leafDescs(sh)
	ls := e.leaves(v)
	for i, d := range ds {
		key := objHeapKey(sh, d)
		h := e.heap(st, key, e.objHeapSort(d))
		st.heaps[key] = e.C.Store(h, ref, ls[i])
		if st.log != nil {
			st.log.heaps[key] = true
		}
	}
}

// ---------- load / store through locations

func (e *Engine) load(st *State, l Loc) Val {
	switch x := l.(type) {
	case VarLoc:
		v, ok := st.vals[x.C]
		if !ok {
			var names []string
			for c := range st.vals {
				names = append(names, fmt.Sprintf("%s#%d", c.Name, c.id))
			}
			sort.Strings(names)
			panic(fmt.Sprintf("load: cell %s#%d has no value; live: %v", x.C.Name, x.C.id, names))
		}
		if b, ok := v.(BoxedArr); ok {
			return ArrVal{Sh: b.Sh, L: e.heapRows(st, b.Sh.Elem, b.Ref)}
		}
		return v
	case FieldLoc:
		b := e.load(st, x.Base)
		sv, ok := b.(StructVal)
		if !ok {
			panic(fmt.Sprintf("load field of non-struct %T", b))
		}
		return sv.F[x.I]
	case IndexLoc:
		if vl, ok := x.Base.(VarLoc); ok {
			if b, ok := st.vals[vl.C].(BoxedArr); ok {
				return e.heapReadElem(st, b.Sh.Elem, b.Ref, x.Idx)
			}
		}
		b := e.load(st, x.Base).(ArrVal)
		return e.arrIndex(b, x.Idx)
	case HeapElemLoc:
		return e.heapReadElem(st, x.Sh, x.Ref, x.Idx)
	case HeapObjLoc:
		return e.objRead(st, x.Sh, x.Ref)
	}
	panic(fmt.Sprintf("load: bad loc %T", l))
}

func (e *Engine) arrIndex(a ArrVal, idx *Term) Val {
	ts := make([]*Term, len(a.L))
	for i, l := range a.L {
		ts[i] = e.C.Select(l, idx)
	}
	return e.valFromLeaves(a.Sh.Elem, ts)
}

func (e *Engine) arrUpdate(a ArrVal, idx *Term, v Val) ArrVal {
	ls := e.leaves(v)
	n := ArrVal{Sh: a.Sh, L: make([]*Term, len(a.L))}
	for i, l := range a.L {
		n.L[i] = e.C.Store(l, idx, ls[i])
	}
	return n
}

func (e *Engine) store(st *State, l Loc, v Val) {
	if st.log != nil {
		st.log.note(l)
	}
	e.storeRec(st, l, v)
}

func (e *Engine) storeRec(st *State, l Loc, v Val) {
	switch x := l.(type) {
	case VarLoc:
		if b, ok := st.vals[x.C].(BoxedArr); ok {
			if _, isBox := v.(BoxedArr); !isBox {
				av := v.(ArrVal)
				e.heapSetRows(st, b.Sh.Elem, b.Ref, av.L)
				return
			}
		}
		st.vals[x.C] = v
	case FieldLoc:
		b := e.load(st, x.Base).(StructVal)
		n := StructVal{Sh: b.Sh, F: append([]Val{}, b.F...)}
		n.F[x.I] = v
		e.storeRec(st, x.Base, n)
	case IndexLoc:
		if vl, ok := x.Base.(VarLoc); ok {
			if b, ok := st.vals[vl.C].(BoxedArr); ok {
				e.heapWriteElem(st, b.Sh.Elem, b.Ref, x.Idx, v)
				return
			}
		}
		b := e.load(st, x.Base).(ArrVal)
		e.storeRec(st, x.Base, e.arrUpdate(b, x.Idx, v))
	case HeapElemLoc:
		e.heapWriteElem(st, x.Sh, x.Ref, x.Idx, v)
	case HeapObjLoc:
		e.objWrite(st, x.Sh, x.Ref, v)
	default:
		panic(fmt.Sprintf("store: bad loc %T", l))
	}
}

// ---------- equality and merging

func (e *Engine) valEq(a, b Val) *Term {
	la, lb := e.leaves(a), e.leaves(b)
	if len(la) != len(lb) {
		panic("valEq: shape mismatch")
	}
	var cs []*Term
	for i := range la {
		cs = append(cs, e.C.Eq(la[i], lb[i]))
	}
	return e.C.And(cs...)
}

func sameLoc(a, b Loc) bool {
	switch x := a.(type) {
	case VarLoc:
		y, ok := b.(VarLoc)
		return ok && x.C == y.C
	case FieldLoc:
		y, ok := b.(FieldLoc)
		return ok && x.I == y.I && sameLoc(x.Base, y.Base)
	case IndexLoc:
		y, ok := b.(IndexLoc)
		return ok && x.Idx == y.Idx && sameLoc(x.Base, y.Base)
	case HeapElemLoc:
		y, ok := b.(HeapElemLoc)
		return ok && x.Ref == y.Ref && x.Idx == y.Idx && x.Sh == y.Sh
	case HeapObjLoc:
		y, ok := b.(HeapObjLoc)
		return ok && x.Ref == y.Ref && x.Sh == y.Sh
	}
	return false
}

// iteVal merges two values of the same shape; ok=false if they cannot be merged.
func (e *Engine) iteVal(c *Term, a, b Val) (Val, bool) {
	switch x := a.(type) {
	case Scalar:
		y, ok := b.(Scalar)
		if !ok || x.T.Sort != y.T.Sort {
			return nil, false
		}
		return Scalar{e.C.Ite(c, x.T, y.T), x.Typ}, true
	case PtrVal:
		y, ok := b.(PtrVal)
		if !ok {
			return nil, false
		}
		if x.Loc != nil || y.Loc != nil {
			if x.Loc != nil && y.Loc != nil && sameLoc(x.Loc, y.Loc) {
				return a, true
			}
			return nil, false
		}
	case BoxedArr:
		y, ok := b.(BoxedArr)
		if ok && x.Ref == y.Ref {
			return a, true
		}
		return nil, false
	case StructVal:
		y, ok := b.(StructVal)
		if !ok || x.Sh != y.Sh {
			return nil, false
		}
		n := StructVal{Sh: x.Sh, F: make([]Val, len(x.F))}
		for i := range x.F {
			v, ok := e.iteVal(c, x.F[i], y.F[i])
			if !ok {
				return nil, false
			}
			n.F[i] = v
		}
		return n, true
	case UntypedConst:
		y, ok := b.(UntypedConst)
		if ok && constant.Compare(x.V, token.EQL, y.V) {
			return a, true
		}
		return nil, false
	case FuncRef, PkgRef, TypeRef:
		return nil, false
	}
	if _, ok := b.(BoxedArr); ok {
		return nil, false
	}
	sa, sb := shapeOfVal(a), shapeOfVal(b)
	if sa == nil || sa != sb {
		return nil, false
	}
	la, lb := e.leaves(a), e.leaves(b)
	ts := make([]*Term, len(la))
	for i := range la {
		ts[i] = e.C.Ite(c, la[i], lb[i])
	}
	return e.valFromLeaves(sa, ts), true
}

func shapeOfVal(v Val) *Shape {
	switch x := v.(type) {
	case StructVal:
		return x.Sh
	case ArrVal:
		return x.Sh
	case SliceVal:
		return x.Sh
	case PtrVal:
		return x.Sh
	case OpaqueVal:
		return x.Sh
	case BoxedArr:
		return x.Sh
	}
	return nil
}

// join merges states that all descend from base (their pc extends base.pc).
// Returns merged states (one if everything could be merged).
func (e *Engine) join(base *State, sts []*State) []*State {
	if len(sts) <= 1 {
		return sts
	}
	n := len(base.pc)
	guards := make([]*Term, len(sts))
	for _, s := range sts[1:] {
		// paths with different pending deferred calls stay separate
		if len(s.defers) != len(sts[0].defers) {
			return sts
		}
		for k := range s.defers {
			if s.defers[k] != sts[0].defers[k] {
				return sts
			}
		}
	}
	for i, s := range sts {
		if len(s.pc) < n {
			return sts
		}
		for k := 0; k < n; k++ {
			if s.pc[k] != base.pc[k] {
				return sts
			}
		}
		guards[i] = e.C.And(s.pc[n:]...)
		// branches that assumed quantified facts (contract calls, copies) stay separate
		// paths: quantifiers under a disjunction defeat instantiation
		if containsQuant(guards[i]) {
			return sts
		}
	}
	m := sts[len(sts)-1].fork()
	m.pc = append([]*Term{}, base.pc...)
	// cells: only those present in every state
	var cells []*Cell
	for c := range sts[0].vals {
		all := true
		for _, s := range sts[1:] {
			if _, ok := s.vals[c]; !ok {
				all = false
				break
			}
		}
		if all {
			cells = append(cells, c)
		}
	}
	sort.Slice(cells, func(i, j int) bool { return cells[i].id < cells[j].id })
	m.vals = map[*Cell]Val{}
	for _, c := range cells {
		v := sts[len(sts)-1].vals[c]
		for i := len(sts) - 2; i >= 0; i-- {
			o := sts[i].vals[c]
			if sameVal(o, v) {
				continue
			}
			nv, ok := e.iteValScalarAware(guards[i], o, v)
			if !ok {
				if os.Getenv("GOVC_DEBUG") != "" {
					fmt.Fprintf(os.Stderr, "join: cannot merge cell %s#%d: %T vs %T\n", c.Name, c.id, o, v)
				}
				return sts
			}
			v = nv
		}
		m.vals[c] = v
	}
	keys := map[string]bool{}
	for _, s := range sts {
		for k := range s.heaps {
			keys[k] = true
		}
	}
	m.heaps = map[string]*Term{}
	for k := range keys {
		var v *Term
		for i := len(sts) - 1; i >= 0; i-- {
			h, ok := sts[i].heaps[k]
			if !ok {
				h = e.C.decls["H0$"+k]
				if h == nil {
					return sts
				}
			}
			if v == nil {
				v = h
			} else {
				v = e.C.Ite(guards[i], h, v)
			}
		}
		m.heaps[k] = v
	}
	// allocation watermark: the maximum over the merged paths (any upper bound is sound)
	var mark *Term
	for i := len(sts) - 1; i >= 0; i-- {
		a := sts[i].alloc
		if a == nil {
			a = e.C.Inti(1)
		}
		if mark == nil {
			mark = a
		} else if mark != a {
			mark = e.C.Ite(e.C.ILt(mark, a), a, mark)
		}
	}
	m.alloc = mark
	m.assume(e.C.Or(guards...))
	return []*State{m}
}

func sameVal(a, b Val) bool {
	switch x := a.(type) {
	case Scalar:
		y, ok := b.(Scalar)
		return ok && x.T == y.T
	case StructVal:
		y, ok := b.(StructVal)
		if !ok || len(x.F) != len(y.F) {
			return false
		}
		for i := range x.F {
			if !sameVal(x.F[i], y.F[i]) {
				return false
			}
		}
		return true
	case ArrVal:
		y, ok := b.(ArrVal)
		if !ok || len(x.L) != len(y.L) {
			return false
		}
		for i := range x.L {
			if x.L[i] != y.L[i] {
				return false
			}
		}
		return true
	case SliceVal:
		y, ok := b.(SliceVal)
		return ok && x.Ref == y.Ref && x.Off == y.Off && x.Len == y.Len && x.Cap == y.Cap
	case PtrVal:
		y, ok := b.(PtrVal)
		if !ok {
			return false
		}
		if x.Loc != nil || y.Loc != nil {
			return x.Loc != nil && y.Loc != nil && sameLoc(x.Loc, y.Loc)
		}
		return x.Ref == y.Ref && x.Nil == y.Nil
	case OpaqueVal:
		y, ok := b.(OpaqueVal)
		return ok && x.ID == y.ID && x.Nil == y.Nil
	case BoxedArr:
		y, ok := b.(BoxedArr)
		return ok && x.Ref == y.Ref
	}
	return false
}

func (e *Engine) iteValScalarAware(c *Term, a, b Val) (Val, bool) {
	if x, ok := a.(Scalar); ok {
		y, ok := b.(Scalar)
		if !ok || x.T.Sort != y.T.Sort {
			return nil, false
		}
		return Scalar{e.C.Ite(c, x.T, y.T), x.Typ}, true
	}
	return e.iteVal(c, a, b)
}

// ---------- misc

type unsupported struct {
	msg string
	pos token.Pos
}

func unsupportedf(pos token.Pos, f string, a ...interface{}) unsupported {
	return unsupported{fmt.Sprintf(f, a...), pos}
}
