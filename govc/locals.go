package main

import (
	"encoding/json"
	"fmt"
	"go/ast"
	"go/types"
	"os"
	"path/filepath"
	"regexp"
	"sort"
)

// Tolerance for renamed locals. Contracts name parameters and local variables (loop invariants,
// cuts). A behaviour-preserving rename would otherwise make the contract unbindable and raise an
// alarm although nothing changed. /verif/contracts/locals.json records, for every function under
// contract, its variables in declaration order with their types (generated on the tree the
// contracts were written for: `govc locals`). When the current function declares the same number
// of variables with the same types in the same order but some names differ, contract identifiers
// and cut anchors are translated old name -> new name. Binding only: every obligation is still
// generated from, and checked against, the current code.

type localVar struct {
	Name string `json:"name"`
	Type string `json:"type"`
}

func funcLocals(fi *FuncInfo) []localVar {
	var out []localVar
	if fi.Decl == nil {
		return nil
	}
	info := fi.Pkg.TypesInfo
	type dv struct {
		pos int
		v   *types.Var
	}
	var vs []dv
	ast.Inspect(fi.Decl, func(n ast.Node) bool {
		if id, ok := n.(*ast.Ident); ok {
			if o, ok := info.Defs[id].(*types.Var); ok && o != nil && !o.IsField() {
				vs = append(vs, dv{int(id.Pos()), o})
			}
		}
		return true
	})
	sort.Slice(vs, func(i, j int) bool { return vs[i].pos < vs[j].pos })
	for _, d := range vs {
		out = append(out, localVar{d.v.Name(), types.TypeString(d.v.Type(), nil)})
	}
	return out
}

func localsPath() string {
	if p := os.Getenv("GOVC_LOCALS"); p != "" {
		return p
	}
	exe, err := os.Executable()
	if err == nil {
		return filepath.Join(filepath.Dir(filepath.Dir(exe)), "contracts", "locals.json")
	}
	return "/verif/contracts/locals.json"
}

// applyRenames computes fi.Rename for every contracted function from the recorded variable lists.
func (p *Prog) applyRenames() {
	b, err := os.ReadFile(localsPath())
	if err != nil {
		return
	}
	var rec map[string][]localVar
	if json.Unmarshal(b, &rec) != nil {
		return
	}
	for _, fi := range p.funcs {
		if fi.Contract == nil || fi.Decl == nil {
			continue
		}
		old, ok := rec[p.displayName(fi)]
		if !ok {
			continue
		}
		cur := funcLocals(fi)
		if len(cur) != len(old) {
			continue
		}
		m := map[string]string{}
		okMap := true
		for i := range cur {
			if cur[i].Type != old[i].Type {
				okMap = false
				break
			}
			if cur[i].Name != old[i].Name {
				if prev, dup := m[old[i].Name]; dup && prev != cur[i].Name {
					okMap = false // one old name would map to two new names: ambiguous, give up
					break
				}
				m[old[i].Name] = cur[i].Name
			}
		}
		if !okMap || len(m) == 0 {
			continue
		}
		// an old name that is still declared somewhere in the function keeps its meaning: do not translate it
		for i := range cur {
			delete(m, cur[i].Name)
		}
		if len(m) == 0 {
			continue
		}
		fi.Rename = m
		for o, n := range m {
			if fi.Contract.MayNil[o] {
				fi.Contract.MayNil[n] = true
			}
		}
		var names []string
		for o, n := range m {
			names = append(names, o+"->"+n)
		}
		sort.Strings(names)
		fi.RenameNote = fmt.Sprintf("%s: locals renamed since the contract was written; identifiers translated (%v)", p.displayName(fi), names)
	}
}

func renameWords(s string, m map[string]string) string {
	if len(m) == 0 {
		return s
	}
	for o, n := range m {
		re := regexp.MustCompile(`\b` + regexp.QuoteMeta(o) + `\b`)
		s = re.ReplaceAllString(s, n)
	}
	return s
}

func cmdLocals(args []string) {
	root, out := "/repo", "/verif/contracts/locals.json"
	var pkgs []string
	for i := 0; i < len(args); i++ {
		switch args[i] {
		case "-root":
			i++
			root = args[i]
		case "-out":
			i++
			out = args[i]
		default:
			pkgs = append(pkgs, args[i])
		}
	}
	os.Setenv("GOVC_LOCALS", "/nonexistent")
	prog, err := loadProg(root, pkgs)
	if err != nil {
		fatal("load: %v", err)
	}
	rec := map[string][]localVar{}
	for _, fi := range prog.funcs {
		if fi.Contract != nil && fi.Decl != nil && fi.Decl.Body != nil && !fi.Contract.Trusted {
			rec[prog.displayName(fi)] = funcLocals(fi)
		}
	}
	b, _ := json.MarshalIndent(rec, "", " ")
	if err := os.WriteFile(out, b, 0o644); err != nil {
		fatal("write: %v", err)
	}
	fmt.Printf("recorded the variables of %d functions in %s\n", len(rec), out)
}
