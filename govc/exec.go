package main

// Statement execution, loops (invariants / complete unrolling), function verification.

import (
	"fmt"
	"go/ast"
	"go/constant"
	"go/token"
	"go/types"
	"os"
	"sort"
	"strings"
)

type Obligation struct {
	Name      string // stable: pkg.Func#class.ordinal
	Path      int    // path ordinal (several paths may reach the same site)
	Func      string
	Kind      string // ensures | requires-call | invariant-entry | invariant-preserve | bounds | nil | ...
	Desc      string
	Pos       token.Position
	Assume    []*Term
	Goal      *Term
	Trivial   bool
	Result    *SolveResult
	Script    string
	ctx       *TermCtx
	Timeout   int
	Solvers   []string
	InputSyms map[string]string
	Instances int
	RelaxedScript string
	Clause    *Clause
	replay    *ReplayInfo
}

type Verifier struct {
	assumingAfter bool // evaluating an assume clause (allocated(x) allocates)
	forkCall  *ast.CallExpr // call that may fork the enclosing statement (withFork)
	forkFrame *Frame
	eng   *Engine
	prog  *Prog
	curFn string
	curFI *FuncInfo

	obls    []*Obligation
	muted   int
	reveal  map[string]bool
	inlined map[string]bool

	trustedUsed      map[string]bool
	calledByContract map[string]bool
	intrinsicsUsed   map[string]bool
	unrolled         []string
	notes            []string

	globals    map[string]*Cell
	globalInit map[string]Val
	allocs     []*Term

	siteOrdByKey map[string]int
	siteCount    map[string]int
	negRefs      int
	caseTag      string
	bigMath      bool
	leanRefs     map[string]bool
	curReplay    *ReplayInfo
	curClauseObj *Clause
	assumingEnsures int
	curClause    string
	typeCodes    map[string]int
	nonNegSeen   map[int]bool
	assumed      map[string]bool
	topFrame     *Frame
	frameTargets []ModTarget
	pathSeq      map[string]int
	curCon       *Contract
	maxPaths     int
}

func (v *Verifier) oblige(fr *Frame, st *State, class string, pos token.Pos, goal *Term, desc string) {
	if v.muted > 0 || st.ctl == CtlDead {
		return
	}
	name := fmt.Sprintf("%s#%s", v.curFn, class)
	if fr.depth > 0 && fr.fi != nil {
		name = fmt.Sprintf("%s#%s@%s", v.curFn, class, shortFuncName(fr.fi.Obj))
	}
	p := v.prog.fset.Position(pos)
	// ordinal by source position order within the function: use line-independent ordinal
	key := fmt.Sprintf("%s|%d", name, pos)
	ord, ok := v.siteOrdByKey[key]
	if !ok {
		ord = v.siteCount[name]
		v.siteCount[name] = ord + 1
		v.siteOrdByKey[key] = ord
	}
	v.addObl(fmt.Sprintf("%s.%d", name, ord), class, desc, p, st, goal)
}

func (v *Verifier) obligeNamed(fr *Frame, st *State, suffix string, pos token.Pos, goal *Term, desc string) {
	if v.muted > 0 || st.ctl == CtlDead {
		return
	}
	kind := suffix
	if i := strings.IndexAny(suffix, ".[0123456789"); i > 0 {
		kind = suffix[:i]
	}
	v.addObl(v.curFn+"#"+suffix, kind, desc, v.prog.fset.Position(pos), st, goal)
}

func (v *Verifier) addObl(name, kind, desc string, p token.Position, st *State, goal *Term) {
	// Split the goal: implications move to the assumptions, conjunctions become separate
	// obligations, top-level universal quantifiers are skolemised (Bool variables by cases).
	type piece struct {
		suffix string
		extra  []*Term
		goal   *Term
	}
	var pieces []piece
	c := v.eng.C
	var split func(suffix string, extra []*Term, g *Term, depth int)
	split = func(suffix string, extra []*Term, g *Term, depth int) {
		switch {
		case g.Op == "=>" && depth < 12:
			split(suffix, append(append([]*Term{}, extra...), g.Args[0]), g.Args[1], depth+1)
		case g.Op == "forall" && depth < 12:
			var boolVars, others []*Term
			for _, b := range g.BVars {
				if b.Sort == BoolSort {
					boolVars = append(boolVars, b)
				} else {
					others = append(others, b)
				}
			}
			m := map[*Term]*Term{}
			for _, b := range others {
				nm := b.Name
				if i := strings.Index(nm, "?"); i >= 0 {
					nm = nm[:i]
				}
				m[b] = c.Fresh("sk$"+nm, b.Sort)
			}
			if len(boolVars) > 3 {
				for _, b := range boolVars {
					m[b] = c.Fresh("sk$"+b.Name, b.Sort)
				}
				boolVars = nil
			}
			n := 1 << len(boolVars)
			for k := 0; k < n; k++ {
				sfx := suffix
				for i, b := range boolVars {
					bit := (k >> i) & 1
					m[b] = c.Bool(bit == 1)
					nm := b.Name
					if j := strings.Index(nm, "?"); j >= 0 {
						nm = nm[:j]
					}
					sfx += fmt.Sprintf("[%s=%d]", nm, bit)
				}
				split(sfx, extra, c.Subst(g.Args[0], m), depth+1)
			}
		case g.Op == "and" && depth < 12 && len(g.Args) <= 64:
			for i, a := range g.Args {
				split(fmt.Sprintf("%s.%d", suffix, i), extra, a, depth+1)
			}
		default:
			pieces = append(pieces, piece{suffix, extra, g})
		}
	}
	split("", nil, goal, 0)
	for _, pc := range pieces {
		nm := name + v.caseTag + pc.suffix
		seq := v.pathSeq[nm]
		v.pathSeq[nm] = seq + 1
		o := &Obligation{Name: nm, Path: seq, Func: v.curFn, Kind: kind, Desc: desc, Pos: p, Goal: pc.goal, ctx: v.eng.C, replay: v.curReplay, Clause: v.curClauseObj}
		trivial := pc.goal.IsTrue()
		for _, e := range pc.extra {
			if e.IsFalse() {
				trivial = true
			}
		}
		if trivial {
			o.Trivial = true
		} else {
			o.Assume = append(append([]*Term{}, st.pc...), pc.extra...)
		}
		if v.curCon != nil {
			o.Timeout = v.curCon.Timeout
			o.Solvers = v.curCon.Solvers
		}
		v.obls = append(v.obls, o)
	}
}

// ---------- statements

func (v *Verifier) execBlock(fr *Frame, st *State, stmts []ast.Stmt) []*State {
	cur := []*State{st}
	var done []*State
	for _, s := range stmts {
		var next []*State
		for _, c := range cur {
			if c.ctl != CtlNormal {
				done = append(done, c)
				continue
			}
			var after []*Cut
			if fr.fi != nil && fr.fi.CutAt != nil && fr.depth == 0 {
				for _, cut := range fr.fi.CutAt[s] {
					if cut.After {
						after = append(after, cut)
					} else {
						v.doCut(fr, c, cut, s.Pos())
					}
				}
			}
			outs := v.execStmt(fr, c, s)
			for _, cut := range after {
				for _, o := range outs {
					if o.ctl == CtlNormal {
						save := fr.scopeAt
						fr.scopeAt = s.End()
						note := ""
						if len(cut.Havoc) > 0 {
							v.havocModifies(fr, o, o.fork(), &Contract{Modifies: cut.Havoc}, s.Pos())
							note = " (after havoc of " + cut.HavocText + ")"
						}
						v.assumingAfter = true
						o.assume(v.asBool(v.evalSpec(fr, o, cut.Clause.Expr), s.Pos()))
						v.assumingAfter = false
						fr.scopeAt = save
						v.assumed[fmt.Sprintf("%s: after %q assume %s%s", v.curFn, cut.Anchor, cut.Clause.Text, note)] = true
					}
				}
			}
			next = append(next, outs...)
		}
		cur = next
		if len(cur)+len(done) > v.maxPaths {
			panic(unsupportedf(s.Pos(), "path explosion (> %d states)", v.maxPaths))
		}
	}
	return append(done, cur...)
}

func (v *Verifier) execStmt(fr *Frame, st *State, s ast.Stmt) []*State {
	switch x := s.(type) {
	case *ast.EmptyStmt:
		return []*State{st}
	case *ast.BlockStmt:
		return v.execBlock(fr, st, x.List)
	case *ast.ExprStmt:
		call, _ := unparen(x.X).(*ast.CallExpr)
		return v.withFork(fr, st, call, func(st *State) []*State {
			v.eval(fr, st, x.X)
			return []*State{st}
		})
	case *ast.DeclStmt:
		gd := x.Decl.(*ast.GenDecl)
		if gd.Tok == token.VAR {
			for _, sp := range gd.Specs {
				vs := sp.(*ast.ValueSpec)
				var vals []Val
				if len(vs.Values) == 1 && len(vs.Names) > 1 {
					vals = v.eval(fr, st, vs.Values[0]).(TupleVal).Vs
				} else {
					for _, e := range vs.Values {
						vals = append(vals, v.eval(fr, st, e))
					}
				}
				for i, n := range vs.Names {
					obj := fr.pkg.TypesInfo.Defs[n]
					if obj == nil {
						continue
					}
					var val Val
					if i < len(vals) {
						val = v.assignable(fr, st, vals[i], obj.Type(), n.Pos())
					} else {
						val = v.eng.zeroVal(v.eng.shapeOf(obj.Type()))
					}
					v.declare(fr, st, obj.(*types.Var), val)
					if i >= len(vals) && obj.Type().String() == "bytes.Buffer" && v.eng.IntIdx() {
						// the zero bytes.Buffer is empty: its byte log (identity of the variable) has length 0
						if cell := fr.vars[obj]; cell != nil {
							id := v.ptrIdentity(PtrVal{Loc: VarLoc{cell}}, n.Pos())
							v.setGhostHeap(st, gChanLen, v.eng.C.Store(v.ghostHeap(st, gChanLen), id, v.eng.C.Inti(0)))
						}
					}
				}
			}
		}
		return []*State{st}
	case *ast.AssignStmt:
		var call *ast.CallExpr
		if len(x.Rhs) == 1 {
			call, _ = unparen(x.Rhs[0]).(*ast.CallExpr)
			for _, l := range x.Lhs {
				if call != nil && !v.simpleArgs(fr, &ast.CallExpr{Fun: ast.NewIdent("_"), Args: []ast.Expr{l}}) {
					call = nil
				}
			}
		}
		return v.withFork(fr, st, call, func(st *State) []*State {
			v.execAssign(fr, st, x)
			return []*State{st}
		})
	case *ast.IncDecStmt:
		loc := v.lvalue(fr, st, x.X)
		cur := v.eng.load(st, loc)
		one := UntypedConst{mkInt(1)}
		op := token.ADD
		if x.Tok == token.DEC {
			op = token.SUB
		}
		v.eng.store(st, loc, v.binop(fr, st, op, cur, one, x.Pos()))
		return []*State{st}
	case *ast.IfStmt:
		return v.execIf(fr, st, x)
	case *ast.SwitchStmt:
		return v.execSwitch(fr, st, x, "")
	case *ast.TypeSwitchStmt:
		return v.execTypeSwitch(fr, st, x, "")
	case *ast.ForStmt:
		return v.execFor(fr, st, x, "")
	case *ast.RangeStmt:
		return v.execRange(fr, st, x, "")
	case *ast.LabeledStmt:
		switch in := x.Stmt.(type) {
		case *ast.ForStmt:
			return v.execFor(fr, st, in, x.Label.Name)
		case *ast.RangeStmt:
			return v.execRange(fr, st, in, x.Label.Name)
		case *ast.SwitchStmt:
			return v.execSwitch(fr, st, in, x.Label.Name)
		}
		return v.execStmt(fr, st, x.Stmt)
	case *ast.ReturnStmt:
		var res []Val
		if len(x.Results) == 0 {
			for _, rc := range fr.results {
				res = append(res, v.eng.load(st, VarLoc{rc}))
			}
		} else if len(x.Results) == 1 && len(fr.results) > 1 {
			res = v.eval(fr, st, x.Results[0]).(TupleVal).Vs
		} else {
			for _, e := range x.Results {
				res = append(res, v.eval(fr, st, e))
			}
		}
		if st.ctl == CtlDead {
			return []*State{st}
		}
		sig := fr.fi.Obj.Type().(*types.Signature)
		for i := range res {
			res[i] = v.assignable(fr, st, res[i], sig.Results().At(i).Type(), x.Pos())
		}
		// named results are updated by a return with operands
		for i, rc := range fr.results {
			if i < len(res) {
				st.vals[rc] = res[i]
			}
		}
		st.ctl = CtlReturn
		st.results = res
		if fr.depth == 0 {
			st.retPos = x.Pos()
		}
		return []*State{st}
	case *ast.BranchStmt:
		switch x.Tok {
		case token.BREAK:
			st.ctl = CtlBreak
		case token.CONTINUE:
			st.ctl = CtlContinue
		case token.FALLTHROUGH:
			st.ctl = CtlNormal
			st.label = "$fallthrough"
			return []*State{st}
		default:
			panic(unsupportedf(x.Pos(), "goto"))
		}
		st.label = ""
		if x.Label != nil {
			st.label = x.Label.Name
		}
		return []*State{st}
	case *ast.SendStmt:
		v.execSend(fr, st, x)
		return []*State{st}
	case *ast.GoStmt:
		v.notes = append(v.notes, fmt.Sprintf("%s: go statement treated as no-op for the caller", v.prog.fset.Position(x.Pos())))
		return []*State{st}
	case *ast.DeferStmt:
		if v.prog.effectFreeCall(fr, x.Call) && !v.prog.isPoolPut(fr, x.Call) {
			return []*State{st}
		}
		// A deferred call runs when the frame returns (runDefers), last registered first. The call's
		// operands are evaluated then, not at the defer statement: exact when they are not reassigned in
		// between (receivers and arguments that are locals assigned once, the idiom `defer x.Release()`).
		if len(fr.loopEntry) > 0 {
			panic(unsupportedf(x.Pos(), "defer inside a loop"))
		}
		if _, isLit := x.Call.Fun.(*ast.FuncLit); isLit {
			panic(unsupportedf(x.Pos(), "defer of a function literal"))
		}
		st.defers = append(st.defers, deferred{fr, x.Call})
		return []*State{st}
	}
	panic(unsupportedf(s.Pos(), "statement %T", s))
}

func (v *Verifier) declare(fr *Frame, st *State, obj *types.Var, val Val) {
	sh := v.eng.shapeOf(obj.Type())
	// one cell per declared variable and frame: several paths (and unrolled iterations)
	// executing the same declaration share the key; states hold the values.
	cell := fr.vars[obj]
	if cell == nil {
		cell = v.eng.newCell(obj.Name(), sh)
		fr.vars[obj] = cell
	}
	if fr.boxed[obj] {
		av, ok := val.(ArrVal)
		if !ok {
			panic(unsupportedf(obj.Pos(), "boxed non-array"))
		}
		ref := v.freshRef(st)
		st.vals[cell] = BoxedArr{Sh: sh, Ref: ref}
		v.eng.heapSetRows(st, sh.Elem, ref, av.L)
		return
	}
	st.vals[cell] = val
	if st.log != nil {
		st.log.note(VarLoc{cell})
	}
}

func (v *Verifier) execAssign(fr *Frame, st *State, x *ast.AssignStmt) {
	if x.Tok != token.ASSIGN && x.Tok != token.DEFINE {
		// op-assign
		op := assignOp(x.Tok)
		loc := v.lvalue(fr, st, x.Lhs[0])
		cur := v.eng.load(st, loc)
		r := v.eval(fr, st, x.Rhs[0])
		v.eng.store(st, loc, v.binop(fr, st, op, cur, r, x.Pos()))
		return
	}
	var vals []Val
	if len(x.Rhs) == 1 && len(x.Lhs) == 2 {
		if ta, ok := unparen(x.Rhs[0]).(*ast.TypeAssertExpr); ok {
			vals = v.evalTypeAssert(fr, st, ta, true).(TupleVal).Vs
		} else if ue, ok := unparen(x.Rhs[0]).(*ast.UnaryExpr); ok && ue.Op == token.ARROW {
			vals = []Val{v.evalRecv(fr, st, ue), Scalar{v.eng.C.Fresh("recv#ok", BoolSort), types.Typ[types.Bool]}}
		}
	}
	if vals != nil {
	} else if len(x.Rhs) == 1 && len(x.Lhs) > 1 {
		r := v.eval(fr, st, x.Rhs[0])
		tv, ok := r.(TupleVal)
		if !ok {
			panic(unsupportedf(x.Pos(), "multi-assign from %T (map/chan/type-assert comma-ok?)", r))
		}
		vals = tv.Vs
	} else {
		for _, e := range x.Rhs {
			vals = append(vals, v.eval(fr, st, e))
		}
	}
	if st.ctl == CtlDead {
		return
	}
	// resolve all lvalues first for plain '=' (Go evaluates index operands before assigning)
	type target struct {
		loc  Loc
		obj  *types.Var
		typ  types.Type
		skip bool
	}
	ts := make([]target, len(x.Lhs))
	for i, l := range x.Lhs {
		if id, ok := l.(*ast.Ident); ok {
			if id.Name == "_" {
				ts[i].skip = true
				continue
			}
			if x.Tok == token.DEFINE {
				if obj, ok := fr.pkg.TypesInfo.Defs[id].(*types.Var); ok && obj != nil {
					ts[i].obj = obj
					ts[i].typ = obj.Type()
					continue
				}
			}
		}
		ts[i].loc = v.lvalue(fr, st, l)
		ts[i].typ = locShape(ts[i].loc).Typ
	}
	for i, t := range ts {
		if t.skip {
			continue
		}
		val := v.assignable(fr, st, vals[i], t.typ, x.Pos())
		if t.obj != nil {
			v.declare(fr, st, t.obj, val)
		} else {
			v.eng.store(st, t.loc, val)
		}
	}
}

func assignOp(t token.Token) token.Token {
	switch t {
	case token.ADD_ASSIGN:
		return token.ADD
	case token.SUB_ASSIGN:
		return token.SUB
	case token.MUL_ASSIGN:
		return token.MUL
	case token.QUO_ASSIGN:
		return token.QUO
	case token.REM_ASSIGN:
		return token.REM
	case token.AND_ASSIGN:
		return token.AND
	case token.OR_ASSIGN:
		return token.OR
	case token.XOR_ASSIGN:
		return token.XOR
	case token.SHL_ASSIGN:
		return token.SHL
	case token.SHR_ASSIGN:
		return token.SHR
	case token.AND_NOT_ASSIGN:
		return token.AND_NOT
	}
	panic("assignOp")
}

func (v *Verifier) execIf(fr *Frame, st *State, x *ast.IfStmt) []*State {
	if x.Init != nil {
		outs := v.execStmt(fr, st, x.Init)
		if len(outs) != 1 || outs[0].ctl != CtlNormal {
			if len(outs) == 1 {
				return outs
			}
			panic(unsupportedf(x.Pos(), "if-init forks"))
		}
		st = outs[0]
	}
	cond := v.asBool(v.eval(fr, st, x.Cond), x.Pos())
	if st.ctl == CtlDead {
		return []*State{st}
	}
	c := v.eng.C
	var outs []*State
	base := st.fork()
	if !cond.IsFalse() {
		t := st.fork()
		t.assume(cond)
		outs = append(outs, v.execBlock(fr, t, x.Body.List)...)
	}
	if !cond.IsTrue() {
		e := st.fork()
		e.assume(c.Not(cond))
		if x.Else != nil {
			outs = append(outs, v.execStmt(fr, e, x.Else)...)
		} else {
			outs = append(outs, e)
		}
	}
	return v.joinNormals(base, outs)
}

// joinNormals merges the normally-continuing states; other control states pass through.
func (v *Verifier) joinNormals(base *State, outs []*State) []*State {
	var normals, others []*State
	for _, o := range outs {
		if o.ctl == CtlNormal && o.label == "" {
			normals = append(normals, o)
		} else if o.ctl != CtlDead {
			others = append(others, o)
		}
	}
	if len(normals) > 1 && os.Getenv("GOVC_NOJOIN") == "" {
		normals = v.eng.join(base, normals)
	}
	return append(others, normals...)
}

func (v *Verifier) execSwitch(fr *Frame, st *State, x *ast.SwitchStmt, label string) []*State {
	c := v.eng.C
	if x.Init != nil {
		outs := v.execStmt(fr, st, x.Init)
		if len(outs) != 1 {
			panic(unsupportedf(x.Pos(), "switch-init forks"))
		}
		st = outs[0]
	}
	var tag Val
	if x.Tag != nil {
		tag = v.eval(fr, st, x.Tag)
	}
	base := st.fork()
	var outs []*State
	noneMatched := c.True()
	var defaultClause *ast.CaseClause
	defaultIdx := -1
	clauses := x.Body.List
	matchConds := make([]*Term, len(clauses))
	for i, cs := range clauses {
		cc := cs.(*ast.CaseClause)
		if cc.List == nil {
			defaultClause = cc
			defaultIdx = i
			continue
		}
		var ms []*Term
		for _, e := range cc.List {
			ev := v.eval(fr, st, e)
			if tag != nil {
				ms = append(ms, v.asBool(v.binop(fr, st, token.EQL, tag, ev, e.Pos()), e.Pos()))
			} else {
				ms = append(ms, v.asBool(ev, e.Pos()))
			}
		}
		m := c.Or(ms...)
		matchConds[i] = c.And(noneMatched, m)
		noneMatched = c.And(noneMatched, c.Not(m))
	}
	if defaultClause != nil {
		matchConds[defaultIdx] = noneMatched
	}
	var carry []*State // fallthrough states entering the next clause
	for i, cs := range clauses {
		cc := cs.(*ast.CaseClause)
		var entry []*State
		if !matchConds[i].IsFalse() {
			e := st.fork()
			e.assume(matchConds[i])
			entry = append(entry, e)
		}
		entry = append(entry, carry...)
		carry = nil
		for _, e := range entry {
			for _, o := range v.execBlock(fr, e, cc.Body) {
				if o.ctl == CtlNormal && o.label == "$fallthrough" {
					o.label = ""
					carry = append(carry, o)
					continue
				}
				if o.ctl == CtlBreak && (o.label == "" || o.label == label) {
					o.ctl = CtlNormal
					o.label = ""
				}
				outs = append(outs, o)
			}
		}
	}
	if defaultClause == nil && !noneMatched.IsFalse() {
		e := st.fork()
		e.assume(noneMatched)
		outs = append(outs, e)
	}
	if v.curCon != nil && v.curCon.JoinSwitch || fr.depth > 0 || fr.inSpec {
		return v.joinNormals(base, outs)
	}
	// keep the cases as separate paths (per-case obligations stay small)
	var res []*State
	for _, o := range outs {
		if o.ctl != CtlDead {
			res = append(res, o)
		}
	}
	return res
}

// doCut proves an intermediate assertion with extra spec functions revealed and then
// assumes it as evaluated under the function's own reveal set.
func (v *Verifier) doCut(fr *Frame, st *State, cut *Cut, pos token.Pos) {
	if st.ctl != CtlNormal {
		return
	}
	saved := v.reveal
	wide := map[string]bool{}
	for k := range saved {
		wide[k] = true
	}
	for k := range cut.Reveal {
		wide[k] = true
	}
	save := fr.scopeAt
	fr.scopeAt = pos
	v.reveal = wide
	goal := v.asBool(v.evalSpec(fr, st, cut.Clause.Expr), pos)
	v.reveal = saved
	v.obligeNamed(fr, st, fmt.Sprintf("cut%d", cut.Ord), pos, goal, "intermediate assertion (revealed): "+cut.Clause.Text)
	// abstraction point: forget the definitions of the named variables, keep only the cut
	for _, name := range cut.Forget {
		obj, _ := v.lookupByName(fr, name).(*types.Var)
		cell := fr.vars[obj]
		if obj == nil || cell == nil {
			panic(unsupportedf(pos, "cut: forget %s: not a local variable here", name))
		}
		if _, boxed := st.vals[cell].(BoxedArr); boxed {
			panic(unsupportedf(pos, "cut: forget %s: boxed array", name))
		}
		var wf []*Term
		st.vals[cell] = v.eng.freshVal(cell.Sh, name+"@cut", &wf)
		for _, w := range wf {
			st.assume(w)
		}
	}
	st.assume(v.asBool(v.evalSpec(fr, st, cut.Clause.Expr), pos))
	fr.scopeAt = save
}

func mkInt(i int64) constant.Value { return constant.MakeInt64(i) }

// ---------- loops

func (v *Verifier) loopInvariants(fr *Frame, node ast.Node) ([]*Clause, int, bool) {
	if fr.fi == nil {
		return nil, -1, false
	}
	ord, ok := fr.fi.LoopOrd[node]
	if !ok {
		return nil, -1, false
	}
	if fr.fi.Contract == nil {
		return nil, ord, false
	}
	inv, has := fr.fi.Contract.LoopInv[ord]
	return inv, ord, has
}

const maxUnroll = 300

func (v *Verifier) execFor(fr *Frame, st *State, x *ast.ForStmt, label string) []*State {
	if x.Init != nil {
		outs := v.execStmt(fr, st, x.Init)
		if len(outs) != 1 {
			panic(unsupportedf(x.Pos(), "for-init forks"))
		}
		st = outs[0]
	}
	cond := func(s *State) *Term {
		if x.Cond == nil {
			return v.eng.C.True()
		}
		return v.asBool(v.eval(fr, s, x.Cond), x.Pos())
	}
	post := func(s *State) []*State {
		if x.Post == nil {
			return []*State{s}
		}
		return v.execStmt(fr, s, x.Post)
	}
	return v.execLoop(fr, st, x, x.Pos(), label, cond, x.Body.List, post)
}

func (v *Verifier) execLoop(fr *Frame, st *State, node ast.Node, pos token.Pos, label string,
	cond func(*State) *Term, body []ast.Stmt, post func(*State) []*State) []*State {
	invs, ord, has := v.loopInvariants(fr, node)
	if !has {
		return v.unrollLoop(fr, st, pos, label, ord, cond, body, post)
	}
	c := v.eng.C
	base := st.fork()
	outerScope := fr.scopeAt
	loopScope := bodyPos(body, pos)
	fr.scopeAt = loopScope
	defer func() { fr.scopeAt = outerScope }()
	fr.loopEntry = append(fr.loopEntry, st.fork())
	defer func() { fr.loopEntry = fr.loopEntry[:len(fr.loopEntry)-1] }()
	// 1. entry
	for _, cl := range invs {
		t := v.asBool(v.evalSpec(fr, st, cl.Expr), pos)
		v.obligeNamed(fr, st, fmt.Sprintf("loop%d.inv%d.entry", ord, cl.Ord), pos, t, "loop invariant holds on entry: "+cl.Text)
	}
	// 2. discover the write set with a muted dry run
	log := newWriteLog()
	{
		d := st.fork()
		d.log = log
		v.muted++
		func() {
			defer func() { v.muted-- }()
			cd := cond(d)
			d.assume(cd)
			outs := v.execBlock(fr, d, body)
			for _, o := range outs {
				if o.ctl == CtlNormal || (o.ctl == CtlContinue && (o.label == "" || o.label == label)) {
					o.ctl = CtlNormal
					post(o)
				}
			}
		}()
	}
	// 3. havoc
	h := st.fork()
	var cells []*Cell
	for cell := range log.cells {
		if _, live := st.vals[cell]; live {
			cells = append(cells, cell)
		}
	}
	sort.Slice(cells, func(i, j int) bool { return cells[i].id < cells[j].id })
	for _, cell := range cells {
		if _, boxed := st.vals[cell].(BoxedArr); boxed {
			continue
		}
		if p, isPtr := st.vals[cell].(PtrVal); isPtr && p.Loc != nil {
			panic(unsupportedf(pos, "loop modifies static pointer variable %s", cell.Name))
		}
		var wf []*Term
		whole := false
		for _, p := range log.paths[cell] {
			if p == nil {
				whole = true
			}
		}
		if whole || len(log.paths[cell]) == 0 {
			h.vals[cell] = v.eng.freshVal(cell.Sh, fmt.Sprintf("%s@L%d", cell.Name, ord), &wf)
		} else {
			cur := h.vals[cell]
			for _, p := range log.paths[cell] {
				cur = v.havocPath(cur, p, fmt.Sprintf("%s@L%d", cell.Name, ord), &wf)
			}
			h.vals[cell] = cur
		}
		for _, w := range wf {
			h.assume(w)
		}
	}
	var hkeys []string
	for k := range log.heaps {
		hkeys = append(hkeys, k)
	}
	sort.Strings(hkeys)
	for _, k := range hkeys {
		old := st.heaps[k]
		if old == nil {
			old = v.eng.C.decls["H0$"+k]
		}
		if old == nil {
			continue
		}
		h.heaps[k] = c.Fresh(fmt.Sprintf("H@L%d$%s", ord, k), old.Sort)
	}
	// allocations in the body: the watermark at the loop head is unknown but not smaller
	if log.allocs {
		old := v.allocMark(st)
		h.alloc = c.Fresh(fmt.Sprintf("alloc@L%d", ord), IntSort)
		h.assume(c.ILe(old, h.alloc))
	}
	// 4. assume invariants; the function's heap frame is an implicit invariant of every loop
	fr.scopeAt = loopScope
	for _, cl := range invs {
		h.assume(v.asBool(v.evalSpec(fr, h, cl.Expr), pos))
	}
	frameKeys := hkeys
	if v.topFrame == nil || v.curCon == nil || (v.topFrame.fi != nil && v.topFrame.fi.RegionStmt != nil) {
		frameKeys = nil // region contracts have no frame clause
	}
	for _, k := range frameKeys {
		if f := v.heapFrameFormula(h, k); f != nil {
			h.assume(f)
		}
	}
	// 5. condition
	cd := cond(h)
	var outs []*State
	if !cd.IsTrue() {
		ex := h.fork()
		ex.assume(c.Not(cd))
		outs = append(outs, ex)
	}
	if !cd.IsFalse() {
		b := h.fork()
		b.assume(cd)
		for _, o := range v.execBlock(fr, b, body) {
			switch {
			case o.ctl == CtlNormal || (o.ctl == CtlContinue && (o.label == "" || o.label == label)):
				o.ctl = CtlNormal
				o.label = ""
				for _, p := range post(o) {
					if p.ctl != CtlNormal {
						continue
					}
					fr.scopeAt = loopScope
					for _, cl := range invs {
						t := v.asBool(v.evalSpec(fr, p, cl.Expr), pos)
						v.obligeNamed(fr, p, fmt.Sprintf("loop%d.inv%d.preserve", ord, cl.Ord), pos, t, "loop invariant preserved: "+cl.Text)
					}
					for _, k := range frameKeys {
						if f := v.heapFrameFormula(p, k); f != nil {
							v.obligeNamed(fr, p, fmt.Sprintf("loop%d.frame[heap %s]", ord, heapKeyName(k)), pos, f, "loop keeps the function's heap frame")
						}
					}
				}
			case o.ctl == CtlBreak && (o.label == "" || o.label == label):
				o.ctl = CtlNormal
				o.label = ""
				outs = append(outs, o)
			case o.ctl == CtlDead:
			default:
				outs = append(outs, o)
			}
		}
	}
	return v.joinNormals(base, outs)
}

// havocPath replaces the sub-value of val at the field path by a fresh value.
func (v *Verifier) havocPath(val Val, path []int, name string, wf *[]*Term) Val {
	sv, ok := val.(StructVal)
	if !ok || len(path) == 0 {
		sh := shapeOfVal(val)
		if s, isS := val.(Scalar); isS {
			sh = v.eng.shapeOf(s.Typ)
		}
		if p, isP := val.(PtrVal); isP && p.Loc != nil {
			return val
		}
		return v.eng.freshVal(sh, name, wf)
	}
	n := StructVal{Sh: sv.Sh, F: append([]Val{}, sv.F...)}
	n.F[path[0]] = v.havocPath(sv.F[path[0]], path[1:], name+"."+sv.Sh.FNames[path[0]], wf)
	return n
}

func bodyPos(body []ast.Stmt, def token.Pos) token.Pos {
	if len(body) > 0 {
		return body[0].Pos()
	}
	return def
}

// unrollLoop executes the loop concretely; the condition must fold to a constant each time.
func (v *Verifier) unrollLoop(fr *Frame, st *State, pos token.Pos, label string, ord int,
	cond func(*State) *Term, body []ast.Stmt, post func(*State) []*State) []*State {
	cur := []*State{st}
	var exits []*State
	base := st.fork()
	iters := 0
	for len(cur) > 0 {
		var next []*State
		for _, s := range cur {
			cd := cond(s)
			if cd.IsFalse() {
				exits = append(exits, s)
				continue
			}
			if !cd.IsTrue() {
				where := v.prog.fset.Position(pos)
				panic(unsupportedf(pos, "loop %d at %s needs an invariant (condition is not constant after %d unrolled iterations)", ord, where, iters))
			}
			for _, o := range v.execBlock(fr, s, body) {
				switch {
				case o.ctl == CtlNormal || (o.ctl == CtlContinue && (o.label == "" || o.label == label)):
					o.ctl = CtlNormal
					o.label = ""
					for _, p := range post(o) {
						if p.ctl == CtlNormal {
							next = append(next, p)
						}
					}
				case o.ctl == CtlBreak && (o.label == "" || o.label == label):
					o.ctl = CtlNormal
					o.label = ""
					exits = append(exits, o)
				case o.ctl == CtlDead:
				default:
					exits = append(exits, o)
				}
			}
		}
		if len(next) > 1 {
			next = v.joinNormals(base, next)
		}
		cur = next
		iters++
		if iters > maxUnroll {
			panic(unsupportedf(pos, "loop %d: more than %d unrolled iterations", ord, maxUnroll))
		}
	}
	if iters > 1 && fr.depth == 0 {
		v.unrolled = append(v.unrolled, fmt.Sprintf("%s loop %d: %d iterations (constant bound)", v.curFn, ord, iters-1))
	}
	return v.joinNormals(base, exits)
}

func (v *Verifier) execRange(fr *Frame, st *State, x *ast.RangeStmt, label string) []*State {
	xt := v.typeOf(fr, x.X)
	var n *Term
	var elemAt func(s *State, i *Term) Val
	switch u := xt.Underlying().(type) {
	case *types.Slice:
		sv := v.eval(fr, st, x.X).(SliceVal)
		n = sv.Len
		v.releasedCheck(fr, st, x.Pos(), sv.Ref)
		elemAt = func(s *State, i *Term) Val { return v.eng.heapReadElem(s, sv.Sh.Elem, sv.Ref, v.iAdd(sv.Off, i)) }
	case *types.Array:
		av, ok := v.eval(fr, st, x.X).(ArrVal)
		if !ok {
			panic(unsupportedf(x.Pos(), "range over array"))
		}
		n = v.idxConst(u.Len())
		elemAt = func(s *State, i *Term) Val { return v.eng.arrIndex(av, i) }
	case *types.Pointer:
		a, ok := u.Elem().Underlying().(*types.Array)
		if !ok {
			panic(unsupportedf(x.Pos(), "range over %s", xt))
		}
		p := v.eval(fr, st, x.X)
		loc := v.derefLoc(fr, st, p, x.Pos())
		n = v.idxConst(a.Len())
		es := v.eng.shapeOf(a.Elem())
		elemAt = func(s *State, i *Term) Val { return v.eng.load(s, IndexLoc{Base: loc, Idx: i, Sh: es}) }
	case *types.Basic:
		if u.Info()&types.IsInteger != 0 {
			n = v.toIdx(v.coerce(v.eval(fr, st, x.X), types.Typ[types.Int]), x.Pos())
			break
		}
		panic(unsupportedf(x.Pos(), "range over string"))
	case *types.Chan:
		// a loop draining a channel: supported when the body writes nothing the caller can see
		chv := v.eval(fr, st, x.X)
		if ov, ok := chv.(OpaqueVal); ok && v.eng.IntIdx() {
			// ghost flag: the channel has been drained until closed (drainedCh)
			defer func() {
				h := v.ghostHeap(st, gChanDrained)
				v.setGhostHeap(st, gChanDrained, v.eng.C.Store(h, ov.ID, v.eng.C.True()))
			}()
		}
		log := newWriteLog()
		d := st.fork()
		d.log = log
		if id, ok := x.Key.(*ast.Ident); ok && x.Tok == token.DEFINE && id.Name != "_" {
			if obj, _ := fr.pkg.TypesInfo.Defs[id].(*types.Var); obj != nil {
				var wf []*Term
				v.declare(fr, d, obj, v.eng.freshVal(v.eng.shapeOf(obj.Type()), "recv", &wf))
				delete(log.cells, fr.vars[obj])
			}
		}
		v.muted++
		v.execBlock(fr, d, x.Body.List)
		v.muted--
		for c := range log.cells {
			if _, live := st.vals[c]; live {
				panic(unsupportedf(x.Pos(), "range over channel whose body modifies %s", c.Name))
			}
		}
		if len(log.heaps) > 0 {
			panic(unsupportedf(x.Pos(), "range over channel whose body modifies the heap"))
		}
		v.notes = append(v.notes, v.prog.fset.Position(x.Pos()).String()+": loop draining a channel has no effect on the caller's state; its termination is assumed")
		return []*State{st}
	default:
		panic(unsupportedf(x.Pos(), "range over %s", xt))
	}
	var keyObj, valObj *types.Var
	var keyLoc, valLoc ast.Expr
	if x.Key != nil {
		if id, ok := x.Key.(*ast.Ident); ok {
			if id.Name != "_" {
				if x.Tok == token.DEFINE {
					keyObj, _ = fr.pkg.TypesInfo.Defs[id].(*types.Var)
				} else {
					keyLoc = x.Key
				}
			}
		} else {
			keyLoc = x.Key
		}
	}
	if x.Value != nil {
		if id, ok := x.Value.(*ast.Ident); ok {
			if id.Name != "_" {
				if x.Tok == token.DEFINE {
					valObj, _ = fr.pkg.TypesInfo.Defs[id].(*types.Var)
				} else {
					valLoc = x.Value
				}
			}
		} else {
			valLoc = x.Value
		}
	}
	// The iteration index: the key variable itself when it is declared by the range
	// clause (so invariants can name it), else a hidden cell.
	keyT := types.Type(types.Typ[types.Int])
	var idxCell *Cell
	if keyObj != nil {
		keyT = keyObj.Type()
		v.declare(fr, st, keyObj, v.convert(fr, st, UntypedConst{mkInt(0)}, keyT, x.Pos()))
		idxCell = fr.vars[keyObj]
	} else {
		idxCell = v.eng.newCell("range$i", v.eng.shapeOf(keyT))
		st.vals[idxCell] = v.convert(fr, st, UntypedConst{mkInt(0)}, keyT, x.Pos())
	}
	if valObj != nil {
		v.declare(fr, st, valObj, v.eng.zeroVal(v.eng.shapeOf(valObj.Type())))
	}
	curIdx := func(s *State) *Term { return v.toIdx(v.eng.load(s, VarLoc{idxCell}), x.Pos()) }
	cond := func(s *State) *Term {
		i := curIdx(s)
		cd := v.iLt(i, n)
		if cd.IsFalse() {
			return cd
		}
		// bind value (and an assigned key) for the coming iteration
		if keyLoc != nil {
			v.eng.store(s, v.lvalue(fr, s, keyLoc), v.eng.load(s, VarLoc{idxCell}))
		}
		if elemAt != nil {
			if valObj != nil {
				v.eng.store(s, VarLoc{fr.vars[valObj]}, elemAt(s, i))
			} else if valLoc != nil {
				v.eng.store(s, v.lvalue(fr, s, valLoc), elemAt(s, i))
			}
		}
		return cd
	}
	post := func(s *State) []*State {
		cur := v.eng.load(s, VarLoc{idxCell})
		v.eng.store(s, VarLoc{idxCell}, v.binop(fr, s, token.ADD, cur, UntypedConst{mkInt(1)}, x.Pos()))
		return []*State{s}
	}
	// invariants can name the iteration index of a range loop without a key variable: rangeIndex
	prevIdx, hadIdx := fr.byName["rangeIndex"]
	fr.byName["rangeIndex"] = idxCell
	defer func() {
		if hadIdx {
			fr.byName["rangeIndex"] = prevIdx
		} else {
			delete(fr.byName, "rangeIndex")
		}
	}()
	return v.execLoop(fr, st, x, x.Pos(), label, cond, x.Body.List, post)
}


// runDefers executes, on the returning path st of frame fr, the deferred calls that path has
// registered for fr (last first). The results of the function have been computed already.
func (v *Verifier) runDefers(fr *Frame, st *State) {
	if len(st.defers) == 0 {
		return
	}
	ctl, res, rp := st.ctl, st.results, st.retPos
	for i := len(st.defers) - 1; i >= 0; i-- {
		d := st.defers[i]
		if d.fr != fr {
			continue
		}
		st.defers = append(st.defers[:i:i], st.defers[i+1:]...)
		st.ctl = CtlNormal
		n := len(st.pc)
		_ = n
		v.eval(fr, st, d.call)
		if st.ctl != CtlNormal {
			panic(unsupportedf(d.call.Pos(), "deferred call does not return normally"))
		}
	}
	st.ctl, st.results, st.retPos = ctl, res, rp
}
