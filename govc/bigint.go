package main

// Models of math/big.Int (two's-complement infinite bit array per object) and of
// interface dynamic types (type tag + payload), with the contract builtins that observe them.
//
// big.Int: ghost heap G:big#bits maps an object reference to (i -> bit i), the
// two's-complement bit of the integer as returned by (*big.Int).Bit. Bit and SetBit are
// exact; Set, SetInt64/SetUint64/NewInt, Lsh, Rsh, And, Or, Xor are exact (quantified);
// every other method that writes its receiver havocs the receiver's bits. Results of
// Cmp/Sign/BitLen/Uint64/Int64 are functions of the bit array (uninterpreted where not bit-wise).

import (
	"fmt"
	"go/ast"
	"go/token"
	"go/types"
	"strings"
)

const gBigBits = "G:big#bits"

func (v *Verifier) bigHeap(st *State) *Term {
	return v.eng.heap(st, gBigBits, ArraySort(IntSort, ArraySort(IntSort, BoolSort)))
}

func isBigInt(t types.Type) bool {
	if p, ok := t.(*types.Pointer); ok {
		t = p.Elem()
	}
	n, ok := t.(*types.Named)
	return ok && n.Obj().Pkg() != nil && n.Obj().Pkg().Path() == "math/big" && n.Obj().Name() == "Int"
}

func (v *Verifier) bigRef(val Val, pos token.Pos) (*Term, *Term) {
	p, ok := val.(PtrVal)
	if !ok || p.Loc != nil {
		panic(unsupportedf(pos, "*big.Int value without object identity (%T)", val))
	}
	return p.Ref, p.Nil
}

func (v *Verifier) bigBits(st *State, ref *Term) *Term { return v.eng.C.Select(v.bigHeap(st), ref) }

func (v *Verifier) setBigBits(st *State, ref, bits *Term) {
	v.setGhostHeap(st, gBigBits, v.eng.C.Store(v.bigHeap(st), ref, bits))
}

func (v *Verifier) newBigPtr(st *State, t types.Type) PtrVal {
	return PtrVal{Sh: v.eng.shapeOf(t), Ref: v.freshRef(st), Nil: v.eng.C.False()}
}

// bitsOfBV: the infinite two's-complement bit array of a (signed or unsigned) machine integer.
func (v *Verifier) bitsOfBV(st *State, t *Term, signed bool) *Term {
	c := v.eng.C
	w := t.Sort.W
	if t.IsConst() && t.Val.Sign() == 0 {
		return c.ConstArray(ArraySort(IntSort, BoolSort), c.False())
	}
	arr := c.Fresh("bigbits", ArraySort(IntSort, BoolSort))
	// explicit bits 0..w-1, the rest by quantifier
	for i := 0; i < w; i++ {
		st.assume(c.Eq(c.Select(arr, c.Inti(int64(i))), c.Eq(c.Extract(i, i, t), c.BVu(1, 1))))
	}
	k := c.Bound("k", IntSort)
	hi := c.False()
	if signed {
		hi = c.Eq(c.Extract(w-1, w-1, t), c.BVu(1, 1))
	}
	st.assume(c.Forall([]*Term{k}, c.And(
		c.Implies(c.ILe(c.Inti(int64(w)), k), c.Eq(c.Select(arr, k), hi)),
		c.Implies(c.ILt(k, c.Inti(0)), c.Eq(c.Select(arr, k), c.False())))))
	return arr
}

func (v *Verifier) bigIntrinsic(fr *Frame, st *State, full string, fn *types.Func, recv Val, args []Val, x *ast.CallExpr) (Val, bool) {
	if !strings.HasPrefix(full, "(*math/big.Int).") && !strings.HasPrefix(full, "math/big.") {
		return nil, false
	}
	c := v.eng.C
	pos := x.Pos()
	v.needIntIdx(pos, "math/big model")
	if v.bigMath {
		return v.bigMathIntrinsic(fr, st, full, fn, recv, args, x)
	}
	v.intrinsicsUsed["math/big.Int modelled as a two's-complement bit array per object ("+fn.Name()+")"] = true
	bitsT := ArraySort(IntSort, BoolSort)
	if full == "math/big.NewInt" {
		p := v.newBigPtr(st, fn.Type().(*types.Signature).Results().At(0).Type())
		v.setBigBits(st, p.Ref, v.bitsOfBV(st, v.asScalar(args[0], pos).T, true))
		return p, true
	}
	if recv == nil {
		return nil, false
	}
	zref, znil := v.bigRef(recv, pos)
	if !fr.inSpec {
		v.oblige(fr, st, "nil", pos, c.Not(znil), "nil *big.Int receiver")
	}
	retZ := func() Val { return recv }
	argBits := func(i int) *Term {
		r, _ := v.bigRef(args[i], pos)
		return v.bigBits(st, r)
	}
	uintArg := func(i int) *Term { return v.toIdx(args[i], pos) }
	switch fn.Name() {
	case "Bit":
		i := uintArg(0)
		if !fr.inSpec {
			v.oblige(fr, st, "bigbit", pos, c.ILe(c.Inti(0), i), "big.Int.Bit: negative bit index")
		}
		b := c.Select(v.bigBits(st, zref), i)
		rt := fn.Type().(*types.Signature).Results().At(0).Type()
		one, zero := v.convert(fr, st, UntypedConst{mkInt(1)}, rt, pos).(Scalar), v.convert(fr, st, UntypedConst{mkInt(0)}, rt, pos).(Scalar)
		return Scalar{c.Ite(b, one.T, zero.T), rt}, true
	case "SetBit":
		xb := argBits(0)
		i := uintArg(1)
		bv := v.asScalar(args[2], pos)
		var isOne, ok *Term
		if bv.T.Sort == IntSort {
			isOne, ok = c.Eq(bv.T, c.Inti(1)), c.Or(c.Eq(bv.T, c.Inti(0)), c.Eq(bv.T, c.Inti(1)))
		} else {
			w := bv.T.Sort.W
			isOne, ok = c.Eq(bv.T, c.BVu(1, w)), c.BVUle(bv.T, c.BVu(1, w))
		}
		if !fr.inSpec {
			v.oblige(fr, st, "bigbit", pos, c.And(c.ILe(c.Inti(0), i), ok), "big.Int.SetBit: negative index or bit not 0/1")
		}
		v.setBigBits(st, zref, c.Store(xb, i, isOne))
		return retZ(), true
	case "Set":
		v.setBigBits(st, zref, argBits(0))
		return retZ(), true
	case "SetInt64", "SetUint64":
		v.setBigBits(st, zref, v.bitsOfBV(st, v.asScalar(args[0], pos).T, fn.Name() == "SetInt64"))
		return retZ(), true
	case "Lsh", "Rsh":
		xb := argBits(0)
		n := uintArg(1)
		nb := c.Fresh("bigbits", bitsT)
		k := c.Bound("k", IntSort)
		var body *Term
		if fn.Name() == "Lsh" {
			body = c.Eq(c.Select(nb, k), c.Ite(c.ILe(n, k), c.Select(xb, c.ISub(k, n)), c.False()))
		} else {
			body = c.Eq(c.Select(nb, k), c.Ite(c.ILe(c.Inti(0), k), c.Select(xb, c.IAdd(k, n)), c.False()))
		}
		st.assume(c.Forall([]*Term{k}, body))
		v.setBigBits(st, zref, nb)
		return retZ(), true
	case "SetBytes":
		// z = the big-endian value of buf: bit k of z is bit k%8 of buf[len-1-k/8] for 0 <= k < 8*len,
		// all other bits are clear (exact; a function of the bytes' content only)
		if v.eng.IntIdx() {
			if sv, ok := args[0].(SliceVal); ok {
				byteSh := v.eng.shapeOf(types.Typ[types.Uint8])
				row := v.eng.heapRows(st, byteSh, sv.Ref)[0]
				nb := c.Fresh("bigbits", bitsT)
				k := c.Bound("k", IntSort)
				q := c.IDiv(k, c.Inti(8))
				r := c.IMod(k, c.Inti(8))
				byt := c.Select(row, c.IAdd(sv.Off, c.ISub(c.ISub(sv.Len, c.Inti(1)), q)))
				var cases []*Term
				for i := 0; i < 8; i++ {
					cases = append(cases, c.And(c.Eq(r, c.Inti(int64(i))), c.Eq(c.Extract(i, i, byt), c.BVu(1, 1))))
				}
				in := c.And(c.ILe(c.Inti(0), k), c.ILt(k, c.IMul(c.Inti(8), sv.Len)))
				st.assume(c.Forall([]*Term{k}, c.Eq(c.Select(nb, k), c.And(in, c.Or(cases...)))))
				v.setBigBits(st, zref, nb)
				return retZ(), true
			}
		}
	case "And", "Or", "Xor":
		xb, yb := argBits(0), argBits(1)
		nb := c.Fresh("bigbits", bitsT)
		k := c.Bound("k", IntSort)
		a, b := c.Select(xb, k), c.Select(yb, k)
		var r *Term
		switch fn.Name() {
		case "And":
			r = c.And(a, b)
		case "Or":
			r = c.Or(a, b)
		default:
			r = c.Not(c.Eq(a, b))
		}
		st.assume(c.Forall([]*Term{k}, c.Eq(c.Select(nb, k), r)))
		v.setBigBits(st, zref, nb)
		return retZ(), true
	case "Uint64", "Int64":
		// the low 64 bits (exact when the value fits; Go leaves the rest undefined)
		bits := v.bigBits(st, zref)
		var acc *Term
		for i := 63; i >= 0; i-- {
			b := c.Ite(c.Select(bits, c.Inti(int64(i))), c.BVu(1, 1), c.BVu(0, 1))
			if acc == nil {
				acc = b
			} else {
				acc = c.Concat(acc, b)
			}
		}
		return Scalar{acc, fn.Type().(*types.Signature).Results().At(0).Type()}, true
	case "Sign", "BitLen", "Cmp", "CmpAbs", "IsInt64", "IsUint64", "TrailingZeroBits":
		ts := []*Term{v.bigBits(st, zref)}
		for i := range args {
			if isBigInt(fn.Type().(*types.Signature).Params().At(i).Type()) {
				ts = append(ts, argBits(i))
			}
		}
		return v.ufResult("big$"+fn.Name(), fn.Type().(*types.Signature).Results(), ts), true
	case "String", "Text", "Bytes", "Append", "Format", "FillBytes":
		res := fn.Type().(*types.Signature).Results()
		var out []Val
		for i := 0; i < res.Len(); i++ {
			var wf []*Term
			fv := v.eng.freshVal(v.eng.shapeOf(res.At(i).Type()), "big$"+fn.Name(), &wf)
			if sv, ok := fv.(SliceVal); ok {
				sv.Ref = v.freshRef(st)
				fv = sv
			}
			for _, w := range wf {
				st.assume(w)
			}
			out = append(out, fv)
		}
		if len(out) == 1 {
			return out[0], true
		}
		return TupleVal{out}, true
	}
	// any other method: the receiver's value becomes unknown; results unconstrained
	sig := fn.Type().(*types.Signature)
	if _, isPtr := sig.Recv().Type().(*types.Pointer); isPtr {
		v.setBigBits(st, zref, c.Fresh("bigbits$"+fn.Name(), bitsT))
		v.notes = append(v.notes, fmt.Sprintf("math/big.Int.%s: receiver's value havocked (method not modelled bit-wise)", fn.Name()))
	}
	res := sig.Results()
	var out []Val
	for i := 0; i < res.Len(); i++ {
		if isBigInt(res.At(i).Type()) {
			out = append(out, recv)
			continue
		}
		var wf []*Term
		fv := v.eng.freshVal(v.eng.shapeOf(res.At(i).Type()), "big$"+fn.Name(), &wf)
		for _, w := range wf {
			st.assume(w)
		}
		out = append(out, fv)
	}
	switch len(out) {
	case 0:
		return TupleVal{}, true
	case 1:
		return out[0], true
	}
	return TupleVal{out}, true
}

// ---------- interface dynamic types

func (v *Verifier) typeCode(t types.Type) *Term {
	k := typeKey(t)
	if v.typeCodes == nil {
		v.typeCodes = map[string]int{}
	}
	n, ok := v.typeCodes[k]
	if !ok {
		n = len(v.typeCodes) + 1
		v.typeCodes[k] = n
	}
	return v.eng.C.Inti(int64(n))
}

func (v *Verifier) dynTag(id *Term) *Term { return v.eng.C.App("dyn$type", IntSort, id) }

func (v *Verifier) dynPayload(id *Term, t types.Type) Val {
	sh := v.eng.shapeOf(t)
	ds := v.eng.leafDescs(sh)
	ts := make([]*Term, len(ds))
	for i, d := range ds {
		ts[i] = v.eng.C.App("dyn$val$"+sanitize(typeKey(t))+d.Path, d.Sort, id)
	}
	return v.eng.valFromLeaves(sh, ts)
}

// boxIface: a concrete value converted to an interface value.
func (v *Verifier) boxIface(st *State, val Val, from types.Type, to *Shape) Val {
	c := v.eng.C
	id := c.Fresh("iface", IntSort)
	if p, ok := val.(PtrVal); ok && p.Loc != nil {
		return OpaqueVal{Sh: to, ID: id, Nil: c.False()}
	}
	if p, ok := val.(PtrVal); ok && p.Loc == nil && externalStruct(from) {
		// a pointer to an object of an external package (bytes.Reader, ...) seen through an interface:
		// the interface value has the identity of the object, so ghost state keyed by it is shared
		id = p.Ref
	}
	st.assume(c.Eq(v.dynTag(id), v.typeCode(from)))
	pl := v.dynPayload(id, from)
	func() {
		defer func() { recover() }()
		st.assume(v.eng.valEq(pl, val))
	}()
	return OpaqueVal{Sh: to, ID: id, Nil: c.False()}
}

func isIfaceType(t types.Type) bool {
	_, ok := t.Underlying().(*types.Interface)
	return ok
}

// execTypeSwitch: switch [v :=] x.(type) { case T...: }
func (v *Verifier) execTypeSwitch(fr *Frame, st *State, x *ast.TypeSwitchStmt, label string) []*State {
	c := v.eng.C
	if x.Init != nil {
		outs := v.execStmt(fr, st, x.Init)
		if len(outs) != 1 {
			panic(unsupportedf(x.Pos(), "type-switch init forks"))
		}
		st = outs[0]
	}
	var guard *ast.TypeAssertExpr
	var bindName *ast.Ident
	switch a := x.Assign.(type) {
	case *ast.ExprStmt:
		guard = a.X.(*ast.TypeAssertExpr)
	case *ast.AssignStmt:
		guard = a.Rhs[0].(*ast.TypeAssertExpr)
		bindName = a.Lhs[0].(*ast.Ident)
	}
	_ = bindName
	iv, ok := v.eval(fr, st, guard.X).(OpaqueVal)
	if !ok {
		panic(unsupportedf(x.Pos(), "type switch on a non-interface value"))
	}
	tag := v.dynTag(iv.ID)
	none := c.True()
	var outs []*State
	var def *ast.CaseClause
	type entry struct {
		cc   *ast.CaseClause
		cond *Term
		typ  types.Type // single concrete type, or nil
	}
	var entries []entry
	for _, cs := range x.Body.List {
		cc := cs.(*ast.CaseClause)
		if cc.List == nil {
			def = cc
			continue
		}
		var ms []*Term
		var single types.Type
		for _, te := range cc.List {
			tv := fr.pkg.TypesInfo.Types[te]
			if tv.IsNil() {
				ms = append(ms, iv.Nil)
				continue
			}
			if isIfaceType(tv.Type) {
				ms = append(ms, c.And(c.Not(iv.Nil), c.App("dyn$implements$"+sanitize(typeKey(tv.Type)), BoolSort, tag)))
			} else {
				ms = append(ms, c.And(c.Not(iv.Nil), c.Eq(tag, v.typeCode(tv.Type))))
			}
			if len(cc.List) == 1 {
				single = tv.Type
			}
		}
		m := c.Or(ms...)
		entries = append(entries, entry{cc, c.And(none, m), single})
		none = c.And(none, c.Not(m))
	}
	if def != nil {
		entries = append(entries, entry{def, none, nil})
	}
	for _, e := range entries {
		if e.cond.IsFalse() {
			continue
		}
		s := st.fork()
		s.assume(e.cond)
		// the symbol declared by the guard, per clause
		if obj, ok := fr.pkg.TypesInfo.Implicits[e.cc].(*types.Var); ok && obj != nil {
			var val Val = iv
			if e.typ != nil && !isIfaceType(e.typ) {
				val = v.dynPayload(iv.ID, e.typ)
				if isBigInt(e.typ) || v.eng.shapeOf(e.typ).Kind == ShPtr {
					// pointer payloads: symbolic, non-nil unknown
				}
				var wf []*Term
				v.eng.wellFormed(val, &wf, true)
				for _, w := range wf {
					s.assume(w)
				}
			} else if e.typ != nil {
				val = OpaqueVal{Sh: v.eng.shapeOf(e.typ), ID: iv.ID, Nil: iv.Nil}
			}
			v.declare(fr, s, obj, val)
		}
		for _, o := range v.execBlock(fr, s, e.cc.Body) {
			if o.ctl == CtlBreak && (o.label == "" || o.label == label) {
				o.ctl = CtlNormal
				o.label = ""
			}
			if o.ctl != CtlDead {
				outs = append(outs, o)
			}
		}
	}
	if def == nil && !none.IsFalse() {
		s := st.fork()
		s.assume(none)
		outs = append(outs, s)
	}
	return outs
}

// ---------- mode bigmath: *big.Int objects denote mathematical integers (ghost heap G:big#val).

const gBigVal = "G:big#val"

func (v *Verifier) bigValHeap(st *State) *Term {
	return v.eng.heap(st, gBigVal, ArraySort(IntSort, IntSort))
}

func (v *Verifier) bigVal(st *State, ref *Term) *Term { return v.eng.C.Select(v.bigValHeap(st), ref) }

func (v *Verifier) setBigVal(st *State, ref, val *Term) {
	v.setGhostHeap(st, gBigVal, v.eng.C.Store(v.bigValHeap(st), ref, val))
}

// bytesValue: the big-endian value of a byte slice, an uninterpreted function of its content
// (for 32-byte blocks: of the 32 bytes themselves).
func (v *Verifier) bytesValue(st *State, sv SliceVal) *Term {
	c := v.eng.C
	row := v.eng.heapRows(st, sv.Sh.Elem, sv.Ref)[0]
	var acc *Term
	for i := int64(0); i < 32; i++ {
		b := c.Select(row, c.IAdd(sv.Off, c.Inti(i)))
		if acc == nil {
			acc = b
		} else {
			acc = c.Concat(acc, b)
		}
	}
	v32 := c.App("big$bytes32", IntSort, acc)
	other := c.App("big$bytes", IntSort, row, sv.Off, sv.Len)
	return c.Ite(c.Eq(sv.Len, c.Inti(32)), v32, other)
}

func (v *Verifier) bigMathIntrinsic(fr *Frame, st *State, full string, fn *types.Func, recv Val, args []Val, x *ast.CallExpr) (Val, bool) {
	c := v.eng.C
	pos := x.Pos()
	v.intrinsicsUsed["math/big.Int modelled as a mathematical integer per object ("+fn.Name()+")"] = true
	if full == "math/big.NewInt" {
		p := v.newBigPtr(st, fn.Type().(*types.Signature).Results().At(0).Type())
		v.setBigVal(st, p.Ref, v.bvToInt(v.asScalar(args[0], pos).T, true))
		return p, true
	}
	if recv == nil {
		return nil, false
	}
	zref, znil := v.bigRef(recv, pos)
	if !fr.inSpec {
		v.oblige(fr, st, "nil", pos, c.Not(znil), "nil *big.Int receiver")
	}
	val := func(i int) *Term {
		r, n := v.bigRef(args[i], pos)
		if !fr.inSpec {
			v.oblige(fr, st, "nil", pos, c.Not(n), "nil *big.Int argument")
		}
		return v.bigVal(st, r)
	}
	switch fn.Name() {
	case "Set":
		v.setBigVal(st, zref, val(0))
		return recv, true
	case "Add":
		v.setBigVal(st, zref, c.IAdd(val(0), val(1)))
		return recv, true
	case "Sub":
		v.setBigVal(st, zref, c.ISub(val(0), val(1)))
		return recv, true
	case "Mul":
		v.setBigVal(st, zref, c.IMul(val(0), val(1)))
		return recv, true
	case "Mod":
		a, m := val(0), val(1)
		if !fr.inSpec {
			v.oblige(fr, st, "divzero", pos, c.Not(c.Eq(m, c.Inti(0))), "big.Int.Mod: division by zero")
		}
		// Go's Mod is the Euclidean modulus; SMT-LIB mod likewise
		v.setBigVal(st, zref, c.IMod(a, m))
		return recv, true
	case "SetBytes":
		sv := args[0].(SliceVal)
		bv := v.bytesValue(st, sv)
		v.setBigVal(st, zref, bv)
		st.assume(c.ILe(c.Inti(0), bv))
		return recv, true
	case "SetInt64", "SetUint64":
		v.setBigVal(st, zref, v.bvToInt(v.asScalar(args[0], pos).T, fn.Name() == "SetInt64"))
		return recv, true
	case "Sign":
		a := v.bigVal(st, zref)
		r := c.Ite(c.ILt(a, c.Inti(0)), c.Inti(-1), c.Ite(c.Eq(a, c.Inti(0)), c.Inti(0), c.Inti(1)))
		return Scalar{r, types.Typ[types.Int]}, true
	case "Cmp":
		a, b := v.bigVal(st, zref), val(0)
		r := c.Ite(c.ILt(a, b), c.Inti(-1), c.Ite(c.Eq(a, b), c.Inti(0), c.Inti(1)))
		return Scalar{r, types.Typ[types.Int]}, true
	case "Bytes":
		// big-endian bytes of |x|: a fresh slice whose value is |x| (inverse pair with SetBytes, trusted)
		sh := v.eng.shapeOf(fn.Type().(*types.Signature).Results().At(0).Type())
		var wf []*Term
		sv := v.eng.freshVal(sh, "bigbytes", &wf).(SliceVal)
		sv.Ref = v.freshRef(st)
		for _, w := range wf {
			st.assume(w)
		}
		a := v.bigVal(st, zref)
		st.assume(c.Implies(c.ILe(c.Inti(0), a), c.Eq(v.bytesValue(st, sv), a)))
		return sv, true
	}
	// anything else: receiver havocked
	if _, isPtr := fn.Type().(*types.Signature).Recv().Type().(*types.Pointer); isPtr {
		v.setBigVal(st, zref, c.Fresh("bigval$"+fn.Name(), IntSort))
		v.notes = append(v.notes, "math/big.Int."+fn.Name()+": receiver's value havocked (not modelled in bigmath mode)")
	}
	res := fn.Type().(*types.Signature).Results()
	var out []Val
	for i := 0; i < res.Len(); i++ {
		if isBigInt(res.At(i).Type()) {
			out = append(out, recv)
			continue
		}
		var wf []*Term
		fv := v.eng.freshVal(v.eng.shapeOf(res.At(i).Type()), "big$"+fn.Name(), &wf)
		for _, w := range wf {
			st.assume(w)
		}
		out = append(out, fv)
	}
	switch len(out) {
	case 0:
		return TupleVal{}, true
	case 1:
		return out[0], true
	}
	return TupleVal{out}, true
}
