package main

// Symbolic evaluation of Go expressions (code and contract expressions share this evaluator).

import (
	"fmt"
	"go/ast"
	"go/constant"
	"go/token"
	"go/types"
	"math/big"
	"strconv"
	"strings"

	"golang.org/x/tools/go/packages"
)

type Frame struct {
	fi         *FuncInfo
	pkg        *packages.Package
	vars       map[types.Object]*Cell
	byName     map[string]*Cell // params / receiver / named results by name (for contract exprs)
	old        *State
	ghost      map[string]Val
	results    []*Cell // named result cells (nil entries for unnamed)
	resultV    []Val   // bound result values while checking ensures
	depth      int
	inSpec     bool      // evaluating a contract expression: no safety obligations
	scopeAt    token.Pos // position for local-name lookup in loop invariants
	boxed      map[*types.Var]bool
	oldCur     *State                // current state while evaluating old(...): locals created after entry read from it
	loopEntry  []*State              // entry states of the enclosing loops with invariants (innermost last): before(e)
	memo       map[*ast.CallExpr]Val // results of calls being re-run path by path (withFork)
	pointees   []pointee
	paramCells []*Cell
	defers     []*ast.CallExpr
}

func (v *Verifier) info(fr *Frame) *types.Info { return fr.pkg.TypesInfo }

func (v *Verifier) typeOf(fr *Frame, e ast.Expr) types.Type {
	if tv, ok := fr.pkg.TypesInfo.Types[e]; ok {
		return tv.Type
	}
	if id, ok := e.(*ast.Ident); ok {
		if o := fr.pkg.TypesInfo.ObjectOf(id); o != nil {
			return o.Type()
		}
	}
	return nil
}

func isUntyped(t types.Type) bool {
	b, ok := t.(*types.Basic)
	return ok && b.Info()&types.IsUntyped != 0
}

func intRange(b *types.Basic, w int) (*big.Int, *big.Int) {
	one := big.NewInt(1)
	if b.Info()&types.IsUnsigned != 0 {
		hi := new(big.Int).Lsh(one, uint(w))
		return big.NewInt(0), hi.Sub(hi, one)
	}
	hi := new(big.Int).Lsh(one, uint(w-1))
	lo := new(big.Int).Neg(hi)
	return lo, hi.Sub(hi, one)
}

// ---------- constants

func (v *Verifier) constVal(cv constant.Value, t types.Type) Val {
	if t == nil || isUntyped(t) {
		return UntypedConst{cv}
	}
	sh := v.eng.shapeOf(t)
	switch sh.Kind {
	case ShScalar:
		if sh.Sort == BoolSort {
			return Scalar{v.eng.C.Bool(constant.BoolVal(cv)), t}
		}
		bi, ok := constToBig(cv)
		if !ok {
			panic(unsupportedf(token.NoPos, "non-integer constant %v", cv))
		}
		if sh.Sort == IntSort {
			return Scalar{v.eng.C.Int(bi), t}
		}
		return Scalar{v.eng.C.BV(bi, sh.Sort.W), t}
	case ShOpaque:
		// string / float constants: opaque, identified by content
		id := v.eng.C.App("const$"+sanitize(cv.ExactString()), IntSort)
		return OpaqueVal{Sh: sh, ID: id, Nil: v.eng.C.False()}
	}
	panic(unsupportedf(token.NoPos, "constant of type %s", t))
}

func constToBig(cv constant.Value) (*big.Int, bool) {
	cv = constant.ToInt(cv)
	if cv.Kind() != constant.Int {
		return nil, false
	}
	if i, ok := constant.Int64Val(cv); ok {
		return big.NewInt(i), true
	}
	bi, ok := new(big.Int).SetString(cv.ExactString(), 10)
	return bi, ok
}

// coerce an untyped constant to the type of the other operand.
func (v *Verifier) coerce(x Val, t types.Type) Val {
	if u, ok := x.(UntypedConst); ok {
		return v.constVal(u.V, t)
	}
	return x
}

func (v *Verifier) asScalar(x Val, pos token.Pos) Scalar {
	switch s := x.(type) {
	case Scalar:
		return s
	case UntypedConst:
		if s.V.Kind() == constant.Bool {
			return Scalar{v.eng.C.Bool(constant.BoolVal(s.V)), types.Typ[types.Bool]}
		}
		return v.constVal(s.V, types.Typ[types.Int]).(Scalar)
	}
	panic(unsupportedf(pos, "expected scalar, got %T", x))
}

func (v *Verifier) asBool(x Val, pos token.Pos) *Term {
	s := v.asScalar(x, pos)
	if s.T.Sort != BoolSort {
		panic(unsupportedf(pos, "expected bool, got %s", s.T.Sort))
	}
	return s.T
}

// toIdx converts an integer scalar to the index sort (BV64, sign- or zero-extended).
func (v *Verifier) toIdx(x Val, pos token.Pos) *Term {
	s := v.asScalar(x, pos)
	if v.eng.IntIdx() {
		if s.T.Sort == IntSort {
			return s.T
		}
		if s.T.Sort.Kind == SBV {
			return v.bvToInt(s.T, isSigned(s.Typ))
		}
		panic(unsupportedf(pos, "index is not an integer"))
	}
	if s.T.Sort.Kind != SBV {
		panic(unsupportedf(pos, "index is not an integer"))
	}
	if isSigned(s.Typ) {
		return v.eng.C.SignExt(s.T, 64)
	}
	return v.eng.C.ZeroExt(s.T, 64)
}

func isSigned(t types.Type) bool {
	b, ok := t.Underlying().(*types.Basic)
	return ok && b.Info()&types.IsInteger != 0 && b.Info()&types.IsUnsigned == 0
}

func (v *Verifier) idxConst(n int64) *Term {
	if v.eng.IntIdx() {
		return v.eng.C.Inti(n)
	}
	return v.eng.C.BV(big.NewInt(n), 64)
}

func (v *Verifier) intVal(t *Term) Val { return Scalar{t, types.Typ[types.Int]} }

// index arithmetic helpers (mode dependent)
func (v *Verifier) iAdd(a, b *Term) *Term {
	if v.eng.IntIdx() {
		return v.eng.C.IAdd(a, b)
	}
	return v.eng.C.BVAdd(a, b)
}
func (v *Verifier) iSub(a, b *Term) *Term {
	if v.eng.IntIdx() {
		return v.eng.C.ISub(a, b)
	}
	return v.eng.C.BVSub(a, b)
}
func (v *Verifier) iLe(a, b *Term) *Term { // signed <=
	if v.eng.IntIdx() {
		return v.eng.C.ILe(a, b)
	}
	return v.eng.C.BVSle(a, b)
}
func (v *Verifier) iLt(a, b *Term) *Term {
	if v.eng.IntIdx() {
		return v.eng.C.ILt(a, b)
	}
	return v.eng.C.BVSlt(a, b)
}

// inRange: 0 <= i < n  (n known non-negative)
func (v *Verifier) inRange(i, n *Term) *Term {
	if v.eng.IntIdx() {
		return v.eng.C.And(v.eng.C.ILe(v.eng.C.Inti(0), i), v.eng.C.ILt(i, n))
	}
	return v.eng.C.BVUlt(i, n)
}

// inRangeIncl: 0 <= i <= n
func (v *Verifier) inRangeIncl(i, n *Term) *Term {
	if v.eng.IntIdx() {
		return v.eng.C.And(v.eng.C.ILe(v.eng.C.Inti(0), i), v.eng.C.ILe(i, n))
	}
	return v.eng.C.BVUle(i, n)
}

// ---------- expression evaluation

func (v *Verifier) eval(fr *Frame, st *State, e ast.Expr) Val {
	// constants known to the type checker
	if tv, ok := fr.pkg.TypesInfo.Types[e]; ok && tv.Value != nil {
		return v.constVal(tv.Value, tv.Type)
	}
	switch x := e.(type) {
	case *ast.ParenExpr:
		return v.eval(fr, st, x.X)
	case *ast.BasicLit:
		switch x.Kind {
		case token.INT:
			return UntypedConst{constant.MakeFromLiteral(x.Value, token.INT, 0)}
		case token.CHAR:
			return UntypedConst{constant.MakeFromLiteral(x.Value, token.CHAR, 0)}
		case token.STRING:
			return v.constVal(constant.MakeFromLiteral(x.Value, token.STRING, 0), types.Typ[types.String])
		}
		panic(unsupportedf(x.Pos(), "literal %s", x.Value))
	case *ast.Ident:
		return v.evalIdent(fr, st, x)
	case *ast.SelectorExpr:
		return v.evalSelector(fr, st, x)
	case *ast.StarExpr:
		p := v.eval(fr, st, x.X)
		return v.eng.load(st, v.derefLoc(fr, st, p, x.Pos()))
	case *ast.UnaryExpr:
		return v.evalUnary(fr, st, x)
	case *ast.BinaryExpr:
		return v.evalBinary(fr, st, x)
	case *ast.IndexExpr:
		return v.evalIndex(fr, st, x)
	case *ast.SliceExpr:
		return v.evalSliceExpr(fr, st, x)
	case *ast.CallExpr:
		return v.evalCall(fr, st, x)
	case *ast.CompositeLit:
		return v.evalCompositeLit(fr, st, x)
	case *ast.FuncLit:
		sh := v.eng.shapeOf(v.typeOf(fr, x))
		return OpaqueVal{Sh: sh, ID: v.eng.C.Fresh("funclit", IntSort), Nil: v.eng.C.False()}
	case *ast.TypeAssertExpr:
		return v.evalTypeAssert(fr, st, x, false)
	case *ast.ArrayType:
		return TypeRef{v.resolveType(fr, x)}
	}
	panic(unsupportedf(e.Pos(), "expression %T", e))
}

func (v *Verifier) lookupObj(fr *Frame, id *ast.Ident) types.Object {
	if o := fr.pkg.TypesInfo.Uses[id]; o != nil {
		return o
	}
	if o := fr.pkg.TypesInfo.Defs[id]; o != nil {
		return o
	}
	return nil
}

func (v *Verifier) evalIdent(fr *Frame, st *State, id *ast.Ident) Val {
	name := id.Name
	if g, ok := fr.ghost[name]; ok {
		return g
	}
	obj := v.lookupObj(fr, id)
	if obj == nil && fr.fi != nil && fr.fi.Rename != nil {
		if n, ok := fr.fi.Rename[name]; ok {
			name = n // a local renamed since the contract was written (locals.go)
		}
	}
	if obj == nil {
		// contract expression: resolve by name
		if c, ok := fr.byName[name]; ok {
			if val, ok := st.vals[c]; ok {
				_ = val
				return v.eng.load(st, VarLoc{c})
			}
			if fr.oldCur != nil && st == fr.old {
				if _, ok := fr.oldCur.vals[c]; ok {
					return v.eng.load(fr.oldCur, VarLoc{c})
				}
			}
			panic(unsupportedf(id.Pos(), "variable %s not live in this state", name))
		}
		// a parameter / local called "result" wins over the contract keyword
		if strings.HasPrefix(name, "result") && fr.resultV != nil {
			var local types.Object
			if fr.scopeAt.IsValid() {
				local = v.lookupByName(fr, name)
				if _, isVar := local.(*types.Var); !isVar {
					local = nil
				}
			}
			if local == nil {
				if name == "result" {
					if len(fr.resultV) != 1 {
						panic(unsupportedf(id.Pos(), "'result' used with %d results; use resultN", len(fr.resultV)))
					}
					return fr.resultV[0]
				}
				if n, err := strconv.Atoi(name[6:]); err == nil && n < len(fr.resultV) {
					return fr.resultV[n]
				}
			}
		}
		obj = v.lookupByName(fr, name)
		if obj == nil {
			panic(unsupportedf(id.Pos(), "contract: unknown identifier %q", name))
		}
	}
	return v.objVal(fr, st, obj, id.Pos())
}

func (v *Verifier) lookupByName(fr *Frame, name string) types.Object {
	if fr.scopeAt.IsValid() {
		if sc := fr.pkg.Types.Scope().Innermost(fr.scopeAt); sc != nil {
			if _, o := sc.LookupParent(name, fr.scopeAt); o != nil {
				return o
			}
		}
	}
	if o := fr.pkg.Types.Scope().Lookup(name); o != nil {
		return o
	}
	// imported package names (file scopes)
	for _, f := range fr.pkg.Syntax {
		if sc := fr.pkg.TypesInfo.Scopes[f]; sc != nil {
			if o := sc.Lookup(name); o != nil {
				return o
			}
		}
	}
	if o := types.Universe.Lookup(name); o != nil {
		return o
	}
	return nil
}

func (v *Verifier) objVal(fr *Frame, st *State, obj types.Object, pos token.Pos) Val {
	switch o := obj.(type) {
	case *types.Const:
		return v.constVal(o.Val(), o.Type())
	case *types.Nil:
		return UntypedConst{nil}
	case *types.Var:
		if c, ok := fr.vars[o]; ok {
			if _, live := st.vals[c]; !live {
				if fr.oldCur != nil && st == fr.old {
					if _, ok := fr.oldCur.vals[c]; ok {
						return v.eng.load(fr.oldCur, VarLoc{c})
					}
				}
				panic(unsupportedf(pos, "variable %s not live in this state (old() of a local?)", o.Name()))
			}
			return v.eng.load(st, VarLoc{c})
		}
		// package-level variable
		if o.Parent() == o.Pkg().Scope() {
			return v.globalVar(st, o)
		}
		panic(unsupportedf(pos, "variable %s has no cell (closure capture?)", o.Name()))
	case *types.Func:
		return FuncRef{Fn: o}
	case *types.PkgName:
		return PkgRef{o.Imported()}
	case *types.TypeName:
		return TypeRef{o.Type()}
	case *types.Builtin:
		return FuncRef{}
	}
	panic(unsupportedf(pos, "identifier %s (%T)", obj.Name(), obj))
}

// globalVar: package-level variables. Function-typed ones named ghost*/uf* are
// uninterpreted functions; other globals are read as unconstrained constants.
func (v *Verifier) globalVar(st *State, o *types.Var) Val {
	sh := v.eng.shapeOf(o.Type())
	name := "G$" + o.Pkg().Name() + "." + o.Name()
	if sh.Kind == ShOpaque {
		if _, ok := o.Type().Underlying().(*types.Signature); ok {
			return GhostFn{Name: o.Pkg().Name() + "." + o.Name(), Sig: o.Type().Underlying().(*types.Signature)}
		}
	}
	if c, ok := v.globals[name]; ok {
		if _, ok := st.vals[c]; !ok {
			st.vals[c] = v.globalInit[name]
		}
		return v.eng.load(st, VarLoc{c})
	}
	c := v.eng.newCell(name, sh)
	var wf []*Term
	val := v.eng.freshVal(sh, name, &wf)
	for _, w := range wf {
		st.assume(w)
	}
	v.globals[name] = c
	v.globalInit[name] = val
	st.vals[c] = val
	return val
}

// GhostFn: an uninterpreted function declared as a package-level func-typed var.
type GhostFn struct {
	Name string
	Sig  *types.Signature
}

func (v *Verifier) evalSelector(fr *Frame, st *State, x *ast.SelectorExpr) Val {
	info := fr.pkg.TypesInfo
	if sel, ok := info.Selections[x]; ok {
		switch sel.Kind() {
		case types.FieldVal:
			base := v.eval(fr, st, x.X)
			return v.fieldPath(fr, st, base, sel.Index(), x.Pos())
		case types.MethodVal:
			return v.methodRef(fr, st, x.X, sel.Obj().(*types.Func), x.Pos())
		}
		panic(unsupportedf(x.Pos(), "method expression"))
	}
	// qualified identifier or contract expression
	if id, ok := x.X.(*ast.Ident); ok {
		if o := info.Uses[x.Sel]; o != nil {
			if _, isPkg := info.Uses[id].(*types.PkgName); isPkg {
				return v.objVal(fr, st, o, x.Pos())
			}
		}
	}
	base := v.eval(fr, st, x.X)
	return v.selectDyn(fr, st, base, x.Sel.Name, x.Pos())
}

func (v *Verifier) selectDyn(fr *Frame, st *State, base Val, name string, pos token.Pos) Val {
	switch b := base.(type) {
	case PkgRef:
		o := b.Pkg.Scope().Lookup(name)
		if o == nil {
			panic(unsupportedf(pos, "contract: %s.%s not found", b.Pkg.Name(), name))
		}
		return v.objVal(fr, st, o, pos)
	case PtrVal:
		if b.Sh.Kind == ShPtr {
			es := v.eng.ptrElemShape(b.Sh)
			if es.Kind == ShStruct {
				if _, _, ok := findField(es, name); ok {
					return v.selectDyn(fr, st, v.eng.load(st, v.derefLoc(fr, st, b, pos)), name, pos)
				}
			}
		}
	case StructVal:
		if path, _, ok := findField(b.Sh, name); ok {
			return v.fieldPath(fr, st, base, path, pos)
		}
	}
	// method?
	t := typeOfVal(base)
	if t != nil {
		obj, _, _ := types.LookupFieldOrMethod(t, true, fr.pkg.Types, name)
		if fn, ok := obj.(*types.Func); ok {
			return FuncRef{Fn: fn, Recv: base}
		}
	}
	panic(unsupportedf(pos, "contract: cannot select .%s on %T", name, base))
}

func typeOfVal(v Val) types.Type {
	switch x := v.(type) {
	case Scalar:
		return x.Typ
	}
	if sh := shapeOfVal(v); sh != nil {
		return sh.Typ
	}
	return nil
}

// findField finds a (possibly promoted) field by name; returns index path.
func findField(sh *Shape, name string) ([]int, *Shape, bool) {
	for i, n := range sh.FNames {
		if n == name {
			return []int{i}, sh.Fields[i], true
		}
	}
	st := sh.Typ.Underlying().(*types.Struct)
	for i := 0; i < st.NumFields(); i++ {
		if st.Field(i).Embedded() && sh.Fields[i].Kind == ShStruct {
			if p, s, ok := findField(sh.Fields[i], name); ok {
				return append([]int{i}, p...), s, true
			}
		}
	}
	return nil, nil, false
}

func (v *Verifier) fieldPath(fr *Frame, st *State, base Val, path []int, pos token.Pos) Val {
	cur := base
	for _, i := range path {
		if p, ok := cur.(PtrVal); ok {
			cur = v.eng.load(st, v.derefLoc(fr, st, p, pos))
		}
		sv, ok := cur.(StructVal)
		if !ok {
			panic(unsupportedf(pos, "field selection on %T", cur))
		}
		cur = sv.F[i]
	}
	return cur
}

func (v *Verifier) methodRef(fr *Frame, st *State, recvExpr ast.Expr, fn *types.Func, pos token.Pos) Val {
	sig := fn.Type().(*types.Signature)
	rt := sig.Recv().Type()
	_, wantPtr := rt.Underlying().(*types.Pointer)
	xt := v.typeOf(fr, recvExpr)
	_, havePtr := xt.Underlying().(*types.Pointer)
	if _, isIface := rt.Underlying().(*types.Interface); isIface {
		return FuncRef{Fn: fn, Recv: v.eval(fr, st, recvExpr)}
	}
	// embedded promotion: walk selection path if needed
	switch {
	case wantPtr && havePtr:
		return FuncRef{Fn: fn, Recv: v.promote(fr, st, v.eval(fr, st, recvExpr), rt, pos)}
	case wantPtr && !havePtr:
		loc := v.lvalue(fr, st, recvExpr)
		return FuncRef{Fn: fn, Recv: PtrVal{Sh: v.eng.shapeOf(rt), Loc: loc, Nil: v.eng.C.False()}}
	case !wantPtr && havePtr:
		p := v.eval(fr, st, recvExpr)
		return FuncRef{Fn: fn, Recv: v.eng.load(st, v.derefLoc(fr, st, p, pos))}
	default:
		return FuncRef{Fn: fn, Recv: v.eval(fr, st, recvExpr)}
	}
}

func (v *Verifier) promote(fr *Frame, st *State, recv Val, want types.Type, pos token.Pos) Val {
	return recv
}

func (v *Verifier) derefLoc(fr *Frame, st *State, p Val, pos token.Pos) Loc {
	pv, ok := p.(PtrVal)
	if !ok {
		panic(unsupportedf(pos, "dereference of %T", p))
	}
	if !fr.inSpec {
		v.oblige(fr, st, "nil", pos, v.eng.C.Not(pv.Nil), "nil pointer dereference")
	}
	if pv.Loc != nil {
		return pv.Loc
	}
	return HeapObjLoc{Sh: v.eng.ptrElemShape(pv.Sh), Ref: pv.Ref}
}

// lvalue resolves an addressable expression to a location.
func (v *Verifier) lvalue(fr *Frame, st *State, e ast.Expr) Loc {
	switch x := e.(type) {
	case *ast.ParenExpr:
		return v.lvalue(fr, st, x.X)
	case *ast.Ident:
		obj := v.lookupObj(fr, x)
		if obj == nil {
			if c, ok := fr.byName[x.Name]; ok {
				return VarLoc{c}
			}
			obj = v.lookupByName(fr, x.Name)
		}
		if vo, ok := obj.(*types.Var); ok {
			if c, ok := fr.vars[vo]; ok {
				return VarLoc{c}
			}
			if vo.Parent() == vo.Pkg().Scope() {
				v.globalVar(st, vo)
				return VarLoc{v.globals["G$"+vo.Pkg().Name()+"."+vo.Name()]}
			}
		}
		panic(unsupportedf(x.Pos(), "lvalue: identifier %s", x.Name))
	case *ast.StarExpr:
		return v.derefLoc(fr, st, v.eval(fr, st, x.X), x.Pos())
	case *ast.SelectorExpr:
		var path []int
		if sel, ok := fr.pkg.TypesInfo.Selections[x]; ok && sel.Kind() == types.FieldVal {
			path = sel.Index()
		}
		xt := v.typeOfDyn(fr, st, x.X)
		var base Loc
		var bsh *Shape
		if pt, ok := xt.Underlying().(*types.Pointer); ok {
			base = v.derefLoc(fr, st, v.eval(fr, st, x.X), x.Pos())
			bsh = v.eng.shapeOf(pt.Elem())
		} else {
			base = v.lvalue(fr, st, x.X)
			bsh = v.eng.shapeOf(xt)
		}
		if path == nil {
			p, _, ok := findField(bsh, x.Sel.Name)
			if !ok {
				panic(unsupportedf(x.Pos(), "lvalue: no field %s", x.Sel.Name))
			}
			path = p
		}
		for k, i := range path {
			if bsh.Kind == ShPtr {
				// embedded pointer
				pv := v.eng.load(st, base)
				base = v.derefLoc(fr, st, pv, x.Pos())
				bsh = v.eng.ptrElemShape(bsh)
			}
			if bsh.Kind != ShStruct {
				panic(unsupportedf(x.Pos(), "lvalue: field path through non-struct"))
			}
			base = FieldLoc{Base: base, I: i, Sh: bsh.Fields[i]}
			bsh = bsh.Fields[i]
			_ = k
		}
		return base
	case *ast.IndexExpr:
		xt := v.typeOfDyn(fr, st, x.X)
		idx := v.toIdx(v.coerce(v.eval(fr, st, x.Index), types.Typ[types.Int]), x.Pos())
		switch u := xt.Underlying().(type) {
		case *types.Array:
			base := v.lvalue(fr, st, x.X)
			v.boundsCheck(fr, st, x.Pos(), idx, v.idxConst(u.Len()))
			return IndexLoc{Base: base, Idx: idx, Sh: v.eng.shapeOf(u.Elem())}
		case *types.Pointer:
			if a, ok := u.Elem().Underlying().(*types.Array); ok {
				base := v.derefLoc(fr, st, v.eval(fr, st, x.X), x.Pos())
				v.boundsCheck(fr, st, x.Pos(), idx, v.idxConst(a.Len()))
				return IndexLoc{Base: base, Idx: idx, Sh: v.eng.shapeOf(a.Elem())}
			}
		case *types.Slice:
			sv := v.eval(fr, st, x.X).(SliceVal)
			v.boundsCheck(fr, st, x.Pos(), idx, sv.Len)
			v.releasedCheck(fr, st, x.Pos(), sv.Ref)
			return HeapElemLoc{Sh: sv.Sh.Elem, Ref: sv.Ref, Idx: v.iAdd(sv.Off, idx)}
		}
		panic(unsupportedf(x.Pos(), "lvalue: index of %s", xt))
	}
	panic(unsupportedf(e.Pos(), "lvalue: %T", e))
}

// typeOfDyn: static type if known to go/types, else from the evaluated value (contracts).
func (v *Verifier) typeOfDyn(fr *Frame, st *State, e ast.Expr) types.Type {
	if t := v.typeOf(fr, e); t != nil {
		return t
	}
	val := v.eval(fr, st, e)
	if t := typeOfVal(val); t != nil {
		return t
	}
	panic(unsupportedf(e.Pos(), "cannot determine type of expression"))
}

// releasedCheck: an array that this path has handed to a sync.Pool (directly or through a callee's
// contract) must not be used any more. Only generated once the path has a released-flag heap.
func (v *Verifier) releasedCheck(fr *Frame, st *State, pos token.Pos, ref *Term) {
	if fr.inSpec || ref == nil {
		return
	}
	h, ok := st.heaps[gReleased]
	if !ok || h == v.eng.C.decls["H0$"+gReleased] {
		return
	}
	v.oblige(fr, st, "released", pos, v.eng.C.Not(v.eng.C.Select(h, ref)), "use of memory that has been returned to a sync.Pool")
}

func (v *Verifier) boundsCheck(fr *Frame, st *State, pos token.Pos, idx, n *Term) {
	if fr.inSpec {
		return
	}
	v.oblige(fr, st, "bounds", pos, v.inRange(idx, n), "index out of range")
}

func (v *Verifier) evalIndex(fr *Frame, st *State, x *ast.IndexExpr) Val {
	xt := v.typeOfDyn(fr, st, x.X)
	switch u := xt.Underlying().(type) {
	case *types.Array:
		// rvalue array (may not be addressable): evaluate the array value
		idx := v.toIdx(v.coerce(v.eval(fr, st, x.Index), types.Typ[types.Int]), x.Pos())
		v.boundsCheck(fr, st, x.Pos(), idx, v.idxConst(u.Len()))
		if loc, ok := v.tryLvalue(fr, st, x.X); ok {
			return v.eng.load(st, IndexLoc{Base: loc, Idx: idx, Sh: v.eng.shapeOf(u.Elem())})
		}
		av := v.eval(fr, st, x.X).(ArrVal)
		return v.eng.arrIndex(av, idx)
	case *types.Pointer, *types.Slice:
		return v.eng.load(st, v.lvalue(fr, st, x))
	case *types.Signature:
		panic(unsupportedf(x.Pos(), "generic instantiation"))
	case *types.Map:
		panic(unsupportedf(x.Pos(), "map index"))
	case *types.Basic:
		panic(unsupportedf(x.Pos(), "string index"))
	}
	panic(unsupportedf(x.Pos(), "index of %s", xt))
}

func (v *Verifier) tryLvalue(fr *Frame, st *State, e ast.Expr) (l Loc, ok bool) {
	switch x := e.(type) {
	case *ast.Ident, *ast.StarExpr, *ast.IndexExpr:
		_ = x
	case *ast.SelectorExpr:
		if _, isCall := x.X.(*ast.CallExpr); isCall {
			return nil, false
		}
	case *ast.ParenExpr:
		return v.tryLvalue(fr, st, x.X)
	default:
		return nil, false
	}
	defer func() {
		if r := recover(); r != nil {
			if _, isU := r.(unsupported); isU {
				l, ok = nil, false
				return
			}
			panic(r)
		}
	}()
	return v.lvalue(fr, st, e), true
}

func (v *Verifier) evalSliceExpr(fr *Frame, st *State, x *ast.SliceExpr) Val {
	c := v.eng.C
	xt := v.typeOfDyn(fr, st, x.X)
	var ref, off, ln, cp *Term
	var elem *Shape
	var resT types.Type
	switch u := xt.Underlying().(type) {
	case *types.Slice:
		sv := v.eval(fr, st, x.X).(SliceVal)
		v.releasedCheck(fr, st, x.Pos(), sv.Ref)
		ref, off, ln, cp, elem, resT = sv.Ref, sv.Off, sv.Len, sv.Cap, sv.Sh.Elem, xt
	case *types.Array:
		loc := v.lvalue(fr, st, x.X)
		ref, elem = v.boxRef(st, loc, x.Pos())
		off, ln, cp = v.idxConst(0), v.idxConst(u.Len()), v.idxConst(u.Len())
		resT = types.NewSlice(u.Elem())
	case *types.Pointer:
		a, ok := u.Elem().Underlying().(*types.Array)
		if !ok {
			panic(unsupportedf(x.Pos(), "slice of %s", xt))
		}
		loc := v.derefLoc(fr, st, v.eval(fr, st, x.X), x.Pos())
		ref, elem = v.boxRef(st, loc, x.Pos())
		off, ln, cp = v.idxConst(0), v.idxConst(a.Len()), v.idxConst(a.Len())
		resT = types.NewSlice(a.Elem())
	default:
		panic(unsupportedf(x.Pos(), "slice of %s", xt))
	}
	lo := v.idxConst(0)
	hi := ln
	mx := cp
	if x.Low != nil {
		lo = v.toIdx(v.coerce(v.eval(fr, st, x.Low), types.Typ[types.Int]), x.Pos())
	}
	if x.High != nil {
		hi = v.toIdx(v.coerce(v.eval(fr, st, x.High), types.Typ[types.Int]), x.Pos())
	}
	if x.Max != nil {
		mx = v.toIdx(v.coerce(v.eval(fr, st, x.Max), types.Typ[types.Int]), x.Pos())
	}
	if !fr.inSpec {
		// 0 <= lo <= hi <= max <= cap
		var conds []*Term
		conds = append(conds, v.inRangeIncl(mx, cp), v.inRangeIncl(hi, mx), v.inRangeIncl(lo, hi))
		v.oblige(fr, st, "slice", x.Pos(), c.And(conds...), "slice bounds out of range")
	}
	_ = elem
	return SliceVal{Sh: v.eng.shapeOf(resT), Ref: ref, Off: v.iAdd(off, lo), Len: v.iSub(hi, lo), Cap: v.iSub(mx, lo)}
}

// boxRef returns the heap ref of a boxed array location.
func (v *Verifier) boxRef(st *State, loc Loc, pos token.Pos) (*Term, *Shape) {
	vl, ok := loc.(VarLoc)
	if !ok {
		panic(unsupportedf(pos, "slicing an array that is not a variable or pointer parameter"))
	}
	b, ok := st.vals[vl.C].(BoxedArr)
	if !ok {
		panic(unsupportedf(pos, "slicing array %s which was not boxed (engine pre-scan missed it)", vl.C.Name))
	}
	return b.Ref, b.Sh.Elem
}

func (v *Verifier) evalUnary(fr *Frame, st *State, x *ast.UnaryExpr) Val {
	c := v.eng.C
	switch x.Op {
	case token.AND:
		if cl, ok := x.X.(*ast.CompositeLit); ok {
			val := v.evalCompositeLit(fr, st, cl)
			sh := shapeOfVal(val)
			cell := v.eng.newCell("new", sh)
			st.vals[cell] = val
			return PtrVal{Sh: v.eng.shapeOf(types.NewPointer(sh.Typ)), Loc: VarLoc{cell}, Nil: c.False()}
		}
		loc := v.lvalue(fr, st, x.X)
		t := v.typeOfDyn(fr, st, x.X)
		return PtrVal{Sh: v.eng.shapeOf(types.NewPointer(t)), Loc: loc, Nil: c.False()}
	case token.NOT:
		return Scalar{c.Not(v.asBool(v.eval(fr, st, x.X), x.Pos())), types.Typ[types.Bool]}
	case token.SUB:
		o := v.eval(fr, st, x.X)
		if u, ok := o.(UntypedConst); ok {
			return UntypedConst{constant.UnaryOp(token.SUB, u.V, 0)}
		}
		s := v.asScalar(o, x.Pos())
		if s.T.Sort == IntSort {
			return Scalar{c.ISub(c.Inti(0), s.T), s.Typ}
		}
		return Scalar{c.BVNeg(s.T), s.Typ}
	case token.XOR:
		o := v.eval(fr, st, x.X)
		s := v.asScalar(o, x.Pos())
		if s.T.Sort.Kind != SBV {
			panic(unsupportedf(x.Pos(), "bitwise not in math mode"))
		}
		return Scalar{c.BVNot(s.T), s.Typ}
	case token.ADD:
		return v.eval(fr, st, x.X)
	case token.ARROW:
		return v.evalRecv(fr, st, x)
	}
	panic(unsupportedf(x.Pos(), "unary %s", x.Op))
}

func hasCall(e ast.Expr) bool {
	found := false
	ast.Inspect(e, func(n ast.Node) bool {
		if _, ok := n.(*ast.CallExpr); ok {
			found = true
		}
		return !found
	})
	return found
}

func (v *Verifier) evalBinary(fr *Frame, st *State, x *ast.BinaryExpr) Val {
	c := v.eng.C
	if x.Op == token.LAND || x.Op == token.LOR {
		l := v.asBool(v.eval(fr, st, x.X), x.Pos())
		guard := l
		if x.Op == token.LOR {
			guard = c.Not(l)
		}
		if guard.IsFalse() {
			return Scalar{l, types.Typ[types.Bool]}
		}
		// evaluate RHS under the guard (for its safety obligations)
		n := len(st.pc)
		st.pc = append(st.pc, guard)
		beforeVals, beforeHeaps := len(st.vals), st.heaps
		_ = beforeVals
		heapSnap := map[string]*Term{}
		for k, h := range beforeHeaps {
			heapSnap[k] = h
		}
		r := v.asBool(v.eval(fr, st, x.Y), x.Pos())
		// RHS heap effects (e.g. boxing a by-value array in an inlined callee) happen only under the guard
		for k, h := range st.heaps {
			if o, ok := heapSnap[k]; ok && o != h {
				st.heaps[k] = c.Ite(guard, h, o)
			}
		}
		extra := st.pc[n+1:]
		st.pc = st.pc[:n]
		for _, a := range extra {
			st.pc = append(st.pc, c.Implies(guard, a))
		}
		if x.Op == token.LAND {
			return Scalar{c.And(l, r), types.Typ[types.Bool]}
		}
		return Scalar{c.Or(l, r), types.Typ[types.Bool]}
	}
	l := v.eval(fr, st, x.X)
	r := v.eval(fr, st, x.Y)
	return v.binop(fr, st, x.Op, l, r, x.Pos())
}

func (v *Verifier) binop(fr *Frame, st *State, op token.Token, l, r Val, pos token.Pos) Val {
	c := v.eng.C
	lu, lIsU := l.(UntypedConst)
	ru, rIsU := r.(UntypedConst)
	// nil comparisons
	if (lIsU && lu.V == nil) || (rIsU && ru.V == nil) {
		other := r
		if rIsU && ru.V == nil {
			other = l
		}
		var isNil *Term
		switch o := other.(type) {
		case PtrVal:
			isNil = o.Nil
		case OpaqueVal:
			isNil = o.Nil
		case SliceVal:
			// nil slice: len == 0 && ref is the nil ref; approximated by cap == 0
			isNil = c.Eq(o.Cap, v.idxConst(0))
		case UntypedConst:
			isNil = c.True()
		default:
			panic(unsupportedf(pos, "nil comparison with %T", other))
		}
		if op == token.EQL {
			return Scalar{isNil, types.Typ[types.Bool]}
		}
		if op == token.NEQ {
			return Scalar{c.Not(isNil), types.Typ[types.Bool]}
		}
		panic(unsupportedf(pos, "nil operand of %s", op))
	}
	if lIsU && rIsU {
		switch op {
		case token.EQL, token.NEQ, token.LSS, token.LEQ, token.GTR, token.GEQ:
			return UntypedConst{constant.MakeBool(constant.Compare(lu.V, op, ru.V))}
		case token.SHL, token.SHR:
			n, _ := constant.Uint64Val(ru.V)
			return UntypedConst{constant.Shift(lu.V, op, uint(n))}
		case token.QUO:
			return UntypedConst{constant.BinaryOp(lu.V, token.QUO_ASSIGN, ru.V)}
		}
		return UntypedConst{constant.BinaryOp(lu.V, op, ru.V)}
	}
	isShift := op == token.SHL || op == token.SHR
	if !isShift {
		if lIsU {
			l = v.coerce(l, typeOfVal(r))
		}
		if rIsU {
			r = v.coerce(r, typeOfVal(l))
		}
	}
	// string concatenation and ordering: opaque
	if lo, ok := l.(OpaqueVal); ok {
		if _, ok2 := r.(OpaqueVal); ok2 {
			switch op {
			case token.ADD:
				return OpaqueVal{Sh: lo.Sh, ID: c.Fresh("strcat", IntSort), Nil: c.False()}
			case token.LSS, token.LEQ, token.GTR, token.GEQ:
				return Scalar{c.Fresh("strcmp", BoolSort), types.Typ[types.Bool]}
			}
		}
	}
	// non-scalar equality
	if op == token.EQL || op == token.NEQ {
		if _, ok := l.(Scalar); !ok {
			eq := v.valEqDyn(l, r, pos)
			if op == token.NEQ {
				eq = c.Not(eq)
			}
			return Scalar{eq, types.Typ[types.Bool]}
		}
	}
	ls := v.asScalar(l, pos)
	if isShift {
		return v.shift(fr, st, op, ls, r, pos)
	}
	rs := v.asScalar(r, pos)
	if ls.T.Sort != rs.T.Sort {
		panic(unsupportedf(pos, "operands of %s have different sorts: %s (%s) vs %s (%s)", op, ls.T.Sort, ls.Typ, rs.T.Sort, rs.Typ))
	}
	b := types.Typ[types.Bool]
	signed := isSigned(ls.Typ)
	switch ls.T.Sort.Kind {
	case SBool:
		switch op {
		case token.EQL:
			return Scalar{c.Eq(ls.T, rs.T), b}
		case token.NEQ:
			return Scalar{c.Not(c.Eq(ls.T, rs.T)), b}
		}
	case SBV:
		switch op {
		case token.ADD:
			return Scalar{c.BVAdd(ls.T, rs.T), ls.Typ}
		case token.SUB:
			return Scalar{c.BVSub(ls.T, rs.T), ls.Typ}
		case token.MUL:
			return Scalar{c.BVMul(ls.T, rs.T), ls.Typ}
		case token.QUO, token.REM:
			if !fr.inSpec {
				v.oblige(fr, st, "divzero", pos, c.Not(c.Eq(rs.T, c.BVu(0, rs.T.Sort.W))), "integer divide by zero")
			}
			if signed {
				if op == token.QUO {
					return Scalar{c.BVSdiv(ls.T, rs.T), ls.Typ}
				}
				return Scalar{c.BVSrem(ls.T, rs.T), ls.Typ}
			}
			if op == token.QUO {
				return Scalar{c.BVUdiv(ls.T, rs.T), ls.Typ}
			}
			return Scalar{c.BVUrem(ls.T, rs.T), ls.Typ}
		case token.AND:
			return Scalar{c.BVAnd(ls.T, rs.T), ls.Typ}
		case token.OR:
			return Scalar{c.BVOr(ls.T, rs.T), ls.Typ}
		case token.XOR:
			return Scalar{c.BVXor(ls.T, rs.T), ls.Typ}
		case token.AND_NOT:
			return Scalar{c.BVAnd(ls.T, c.BVNot(rs.T)), ls.Typ}
		case token.EQL:
			return Scalar{c.Eq(ls.T, rs.T), b}
		case token.NEQ:
			return Scalar{c.Not(c.Eq(ls.T, rs.T)), b}
		case token.LSS:
			if signed {
				return Scalar{c.BVSlt(ls.T, rs.T), b}
			}
			return Scalar{c.BVUlt(ls.T, rs.T), b}
		case token.LEQ:
			if signed {
				return Scalar{c.BVSle(ls.T, rs.T), b}
			}
			return Scalar{c.BVUle(ls.T, rs.T), b}
		case token.GTR:
			if signed {
				return Scalar{c.BVSlt(rs.T, ls.T), b}
			}
			return Scalar{c.BVUlt(rs.T, ls.T), b}
		case token.GEQ:
			if signed {
				return Scalar{c.BVSle(rs.T, ls.T), b}
			}
			return Scalar{c.BVUle(rs.T, ls.T), b}
		}
	case SInt:
		switch op {
		case token.ADD:
			return Scalar{c.IAdd(ls.T, rs.T), ls.Typ}
		case token.SUB:
			return Scalar{c.ISub(ls.T, rs.T), ls.Typ}
		case token.MUL:
			return Scalar{c.IMul(ls.T, rs.T), ls.Typ}
		case token.QUO, token.REM:
			if !fr.inSpec {
				v.oblige(fr, st, "divzero", pos, c.Not(c.Eq(rs.T, c.Inti(0))), "integer divide by zero")
			}
			// Go truncated division expressed with SMT floor div/mod for non-negative operands;
			// general case via ite on signs.
			return Scalar{v.truncDivMod(op, ls.T, rs.T), ls.Typ}
		case token.EQL:
			return Scalar{c.Eq(ls.T, rs.T), b}
		case token.NEQ:
			return Scalar{c.Not(c.Eq(ls.T, rs.T)), b}
		case token.LSS:
			return Scalar{c.ILt(ls.T, rs.T), b}
		case token.LEQ:
			return Scalar{c.ILe(ls.T, rs.T), b}
		case token.GTR:
			return Scalar{c.ILt(rs.T, ls.T), b}
		case token.GEQ:
			return Scalar{c.ILe(rs.T, ls.T), b}
		case token.AND, token.OR, token.XOR, token.AND_NOT:
			if ls.T.IsConst() && rs.T.IsConst() && ls.T.Val.Sign() >= 0 && rs.T.Val.Sign() >= 0 {
				r := new(big.Int)
				switch op {
				case token.AND:
					r.And(ls.T.Val, rs.T.Val)
				case token.OR:
					r.Or(ls.T.Val, rs.T.Val)
				case token.XOR:
					r.Xor(ls.T.Val, rs.T.Val)
				default:
					r.AndNot(ls.T.Val, rs.T.Val)
				}
				return Scalar{c.Int(r), ls.Typ}
			}
			// x & (2^k - 1) for non-negative x is x mod 2^k
			if op == token.AND && rs.T.IsConst() {
				m := new(big.Int).Add(rs.T.Val, big.NewInt(1))
				if m.Sign() > 0 && new(big.Int).And(m, rs.T.Val).Sign() == 0 {
					if !fr.inSpec {
						v.oblige(fr, st, "masknonneg", pos, c.ILe(c.Inti(0), ls.T), "bit mask of a possibly negative int (hybrid mode models x & (2^k-1) as x mod 2^k)")
					}
					return Scalar{c.IMod(ls.T, c.Int(m)), ls.Typ}
				}
			}
			name := map[token.Token]string{token.AND: "math$and", token.OR: "math$or", token.XOR: "math$xor", token.AND_NOT: "math$andnot"}[op]
			return Scalar{c.App(name, IntSort, ls.T, rs.T), ls.Typ}
		}
	}
	panic(unsupportedf(pos, "binary %s on %s", op, ls.T.Sort))
}

func (v *Verifier) truncDivMod(op token.Token, a, b *Term) *Term {
	c := v.eng.C
	z := c.Inti(0)
	// SMT div/mod are Euclidean-ish (floor for positive divisor). Go truncates toward zero.
	q := c.IDiv(a, b)
	m := c.IMod(a, b)
	// For a >= 0: Go q = SMT div when b>0; when b<0 SMT div(a,b) = -(a div -b) which equals trunc.  SMT-LIB: a = b*q + r, 0<=r<|b|.
	// Trunc: if a >= 0 or r == 0: q_t = q, r_t = r; else (a<0, r>0): if b>0: q_t = q+1, r_t = r-b; else q_t = q-1, r_t = r+b.
	adj := c.And(c.ILt(a, z), c.Not(c.Eq(m, z)))
	bpos := c.ILt(z, b)
	if op == token.QUO {
		return c.Ite(adj, c.Ite(bpos, c.IAdd(q, c.Inti(1)), c.ISub(q, c.Inti(1))), q)
	}
	return c.Ite(adj, c.Ite(bpos, c.ISub(m, b), c.IAdd(m, b)), m)
}

func (v *Verifier) valEqDyn(l, r Val, pos token.Pos) *Term {
	// pointers: static locs compare by identity
	if lp, ok := l.(PtrVal); ok {
		if rp, ok := r.(PtrVal); ok {
			if lp.Loc != nil && rp.Loc != nil {
				return v.eng.C.Bool(sameLoc(lp.Loc, rp.Loc))
			}
			if lp.Loc != nil || rp.Loc != nil {
				panic(unsupportedf(pos, "comparison of static and symbolic pointers"))
			}
			c := v.eng.C
			return c.Or(c.And(lp.Nil, rp.Nil), c.And(c.Not(lp.Nil), c.Not(rp.Nil), c.Eq(lp.Ref, rp.Ref)))
		}
	}
	if lo, ok := l.(OpaqueVal); ok {
		if ro, ok := r.(OpaqueVal); ok {
			c := v.eng.C
			return c.Or(c.And(lo.Nil, ro.Nil), c.And(c.Not(lo.Nil), c.Not(ro.Nil), c.Eq(lo.ID, ro.ID)))
		}
	}
	defer func() {
		if rr := recover(); rr != nil {
			if s, ok := rr.(string); ok && strings.Contains(s, "mismatch") {
				panic(unsupportedf(pos, "comparison of values with different shapes"))
			}
			panic(rr)
		}
	}()
	return v.eng.valEq(l, r)
}

func (v *Verifier) shift(fr *Frame, st *State, op token.Token, ls Scalar, r Val, pos token.Pos) Val {
	c := v.eng.C
	if ls.T.Sort.Kind != SBV {
		// math mode: shifts by constants only, as multiplication / division by 2^k
		if u, ok := r.(UntypedConst); ok {
			n, _ := constant.Uint64Val(u.V)
			p := c.Int(new(big.Int).Lsh(big.NewInt(1), uint(n)))
			if op == token.SHL {
				return Scalar{c.IMul(ls.T, p), ls.Typ}
			}
			return Scalar{c.IDiv(ls.T, p), ls.Typ}
		}
		rs := v.asScalar(r, pos)
		if rs.T.IsConst() {
			p := c.Int(new(big.Int).Lsh(big.NewInt(1), uint(rs.T.Val.Uint64())))
			if op == token.SHL {
				return Scalar{c.IMul(ls.T, p), ls.Typ}
			}
			return Scalar{c.IDiv(ls.T, p), ls.Typ}
		}
		name := "math$shl"
		if op == token.SHR {
			name = "math$shr"
		}
		return Scalar{c.App(name, IntSort, ls.T, rs.T), ls.Typ}
	}
	w := ls.T.Sort.W
	var cnt *Term
	if u, ok := r.(UntypedConst); ok {
		bi, _ := constToBig(u.V)
		if bi.Cmp(big.NewInt(int64(w))) >= 0 {
			bi = big.NewInt(int64(w))
		}
		cnt = c.BV(bi, w)
	} else {
		rs := v.asScalar(r, pos)
		if rs.T.Sort == IntSort {
			// hybrid mode: integer shift count; encoded as a case split over the count
			// (no int2bv bridge): count >= w shifts everything out.
			if !fr.inSpec && isSigned(rs.Typ) {
				v.oblige(fr, st, "shift", pos, c.ILe(c.Inti(0), rs.T), "negative shift amount")
			}
			if rs.T.IsConst() {
				n := rs.T.Val
				if n.Cmp(big.NewInt(int64(w))) > 0 {
					n = big.NewInt(int64(w))
				}
				rs = Scalar{c.BV(n, w), uintTypeOfWidth(w)}
			} else {
				signedX := isSigned(ls.Typ)
				var res *Term
				if op == token.SHL || !signedX {
					res = c.BVu(0, w)
				} else {
					res = c.BVAshr(ls.T, c.BVu(uint64(w-1), w))
				}
				for k := w - 1; k >= 0; k-- {
					var sh *Term
					switch {
					case op == token.SHL:
						sh = c.BVShl(ls.T, c.BVu(uint64(k), w))
					case signedX:
						sh = c.BVAshr(ls.T, c.BVu(uint64(k), w))
					default:
						sh = c.BVLshr(ls.T, c.BVu(uint64(k), w))
					}
					res = c.Ite(c.Eq(rs.T, c.Inti(int64(k))), sh, res)
				}
				return Scalar{res, ls.Typ}
			}
		}
		rw := rs.T.Sort.W
		if isSigned(rs.Typ) && !fr.inSpec {
			v.oblige(fr, st, "shift", pos, c.BVSle(c.BVu(0, rw), rs.T), "negative shift amount")
		}
		switch {
		case rw == w:
			cnt = rs.T
		case rw < w:
			cnt = c.ZeroExt(rs.T, w)
		default:
			// saturate
			cnt = c.Ite(c.BVUlt(rs.T, c.BVu(uint64(w), rw)), c.Extract(w-1, 0, rs.T), c.BVu(uint64(w), w))
		}
	}
	if op == token.SHL {
		return Scalar{c.BVShl(ls.T, cnt), ls.Typ}
	}
	if isSigned(ls.Typ) {
		return Scalar{c.BVAshr(ls.T, cnt), ls.Typ}
	}
	return Scalar{c.BVLshr(ls.T, cnt), ls.Typ}
}

// ---------- conversions

func (v *Verifier) convert(fr *Frame, st *State, val Val, to types.Type, pos token.Pos) Val {
	c := v.eng.C
	if u, ok := val.(UntypedConst); ok {
		if u.V == nil {
			return v.eng.zeroVal(v.eng.shapeOf(to))
		}
		return v.constVal(u.V, to)
	}
	tsh := v.eng.shapeOf(to)
	switch x := val.(type) {
	case Scalar:
		if tsh.Kind != ShScalar {
			if tsh.Kind == ShOpaque && isIfaceType(to) {
				return v.boxIface(st, x, x.Typ, tsh)
			}
			if tsh.Kind == ShOpaque {
				// e.g. string(rune) / float conversions
				return OpaqueVal{Sh: tsh, ID: c.Fresh("conv", IntSort), Nil: c.False()}
			}
			panic(unsupportedf(pos, "conversion of scalar to %s", to))
		}
		if x.T.Sort == tsh.Sort && (x.T.Sort.Kind != SBV) {
			if x.T.Sort == IntSort && !fr.inSpec && v.eng.MathInts {
				// math mode: conversion must not change the value
				if b, ok := to.Underlying().(*types.Basic); ok {
					lo, hi := intRange(b, basicWidth(b))
					v.oblige(fr, st, "convrange", pos, c.And(c.ILe(c.Int(lo), x.T), c.ILe(x.T, c.Int(hi))), "conversion out of range (math mode)")
				}
			}
			return Scalar{x.T, to}
		}
		if x.T.Sort.Kind == SBV && tsh.Sort.Kind == SBV {
			if isSigned(x.Typ) {
				return Scalar{c.SignExt(x.T, tsh.Sort.W), to}
			}
			return Scalar{c.ZeroExt(x.T, tsh.Sort.W), to}
		}
		if x.T.Sort.Kind == SBV && tsh.Sort == IntSort {
			return Scalar{v.bvToInt(x.T, isSigned(x.Typ)), to}
		}
		if x.T.Sort == IntSort && tsh.Sort.Kind == SBV {
			return Scalar{c.Int2BV(x.T, tsh.Sort.W), to}
		}
		panic(unsupportedf(pos, "conversion %s -> %s", x.Typ, to))
	case StructVal:
		if tsh.Kind == ShStruct && len(tsh.Fields) == len(x.F) {
			return v.eng.valFromLeaves(tsh, v.eng.leaves(x))
		}
	case SliceVal:
		if tsh.Kind == ShSlice && typeKey(tsh.Elem.Typ.Underlying()) == typeKey(x.Sh.Elem.Typ.Underlying()) {
			// heap keys are by element type; only allow identical element types
			if typeKey(tsh.Elem.Typ) == typeKey(x.Sh.Elem.Typ) {
				return SliceVal{Sh: tsh, Ref: x.Ref, Off: x.Off, Len: x.Len, Cap: x.Cap}
			}
		}
		if tsh.Kind == ShOpaque { // string(bytes)
			return OpaqueVal{Sh: tsh, ID: c.Fresh("str", IntSort), Nil: c.False()}
		}
	case ArrVal:
		if tsh.Kind == ShArray {
			return ArrVal{Sh: tsh, L: x.L}
		}
	case PtrVal:
		if tsh.Kind == ShPtr {
			return PtrVal{Sh: tsh, Loc: x.Loc, Ref: x.Ref, Nil: x.Nil}
		}
		if tsh.Kind == ShOpaque { // pointer to interface
			if x.Loc != nil {
				return OpaqueVal{Sh: tsh, ID: c.Fresh("iface", IntSort), Nil: x.Nil}
			}
			r := v.boxIface(st, x, x.Sh.Typ, tsh).(OpaqueVal)
			r.Nil = x.Nil
			return r
		}
	case OpaqueVal:
		if tsh.Kind == ShOpaque {
			return OpaqueVal{Sh: tsh, ID: x.ID, Nil: x.Nil}
		}
		if tsh.Kind == ShSlice { // []byte(string)
			var wf []*Term
			r := v.eng.freshVal(tsh, "bytes", &wf).(SliceVal)
			for _, w := range wf {
				st.assume(w)
			}
			r.Ref = v.freshRef(st) // the conversion allocates
			return r
		}
	}
	if tsh.Kind == ShOpaque {
		// value to interface
		if isIfaceType(to) {
			if ft := typeOfVal(val); ft != nil {
				return v.boxIface(st, val, ft, tsh)
			}
		}
		return OpaqueVal{Sh: tsh, ID: c.Fresh("iface", IntSort), Nil: c.False()}
	}
	panic(unsupportedf(pos, "conversion of %T to %s", val, to))
}

// assignable converts a value for assignment to a variable of type t (interfaces, untyped consts).
func (v *Verifier) assignable(fr *Frame, st *State, val Val, t types.Type, pos token.Pos) Val {
	if _, ok := val.(UntypedConst); ok {
		return v.convert(fr, st, val, t, pos)
	}
	tsh := v.eng.shapeOf(t)
	if tsh.Kind == ShOpaque {
		if o, ok := val.(OpaqueVal); ok {
			return OpaqueVal{Sh: tsh, ID: o.ID, Nil: o.Nil}
		}
		return v.convert(fr, st, val, t, pos)
	}
	if sv, ok := val.(SliceVal); ok && tsh.Kind == ShSlice {
		return SliceVal{Sh: tsh, Ref: sv.Ref, Off: sv.Off, Len: sv.Len, Cap: sv.Cap}
	}
	if s, ok := val.(Scalar); ok && tsh.Kind == ShScalar {
		return Scalar{s.T, t}
	}
	return val
}

func (v *Verifier) resolveType(fr *Frame, e ast.Expr) types.Type {
	if tv, ok := fr.pkg.TypesInfo.Types[e]; ok && tv.IsType() {
		return tv.Type
	}
	switch x := e.(type) {
	case *ast.Ident:
		o := v.lookupByName(fr, x.Name)
		if tn, ok := o.(*types.TypeName); ok {
			return tn.Type()
		}
	case *ast.SelectorExpr:
		if id, ok := x.X.(*ast.Ident); ok {
			if pn, ok := v.lookupByName(fr, id.Name).(*types.PkgName); ok {
				if tn, ok := pn.Imported().Scope().Lookup(x.Sel.Name).(*types.TypeName); ok {
					return tn.Type()
				}
			}
		}
	case *ast.ArrayType:
		el := v.resolveType(fr, x.Elt)
		if x.Len == nil {
			return types.NewSlice(el)
		}
		if bl, ok := x.Len.(*ast.BasicLit); ok {
			n, _ := strconv.ParseInt(bl.Value, 0, 64)
			return types.NewArray(el, n)
		}
	case *ast.StarExpr:
		return types.NewPointer(v.resolveType(fr, x.X))
	}
	panic(unsupportedf(e.Pos(), "cannot resolve type expression"))
}

// ---------- composite literals

func (v *Verifier) evalCompositeLit(fr *Frame, st *State, x *ast.CompositeLit) Val {
	var t types.Type
	if tt := v.typeOf(fr, x); tt != nil {
		t = tt
	} else {
		t = v.resolveType(fr, x.Type)
	}
	sh := v.eng.shapeOf(t)
	switch sh.Kind {
	case ShStruct:
		sv := v.eng.zeroVal(sh).(StructVal)
		for i, el := range x.Elts {
			if kv, ok := el.(*ast.KeyValueExpr); ok {
				name := kv.Key.(*ast.Ident).Name
				idx := -1
				for k, n := range sh.FNames {
					if n == name {
						idx = k
					}
				}
				if idx < 0 {
					panic(unsupportedf(x.Pos(), "unknown field %s", name))
				}
				sv.F[idx] = v.assignable(fr, st, v.eval(fr, st, kv.Value), sh.Fields[idx].Typ, x.Pos())
			} else {
				sv.F[i] = v.assignable(fr, st, v.eval(fr, st, el), sh.Fields[i].Typ, x.Pos())
			}
		}
		return sv
	case ShArray:
		av := v.eng.zeroVal(sh).(ArrVal)
		next := int64(0)
		for _, el := range x.Elts {
			var ve ast.Expr = el
			if kv, ok := el.(*ast.KeyValueExpr); ok {
				k := v.eval(fr, st, kv.Key)
				bi, _ := constToBig(k.(UntypedConst).V)
				next = bi.Int64()
				ve = kv.Value
			}
			av = v.eng.arrUpdate(av, v.idxConst(next), v.assignable(fr, st, v.evalElem(fr, st, ve, sh.Elem), sh.Elem.Typ, x.Pos()))
			next++
		}
		return av
	case ShSlice:
		n := int64(len(x.Elts))
		ref := v.freshRef(st)
		rows := make([]*Term, 0)
		for _, d := range v.eng.leafDescs(sh.Elem) {
			rows = append(rows, v.eng.zeroTerm(ArraySort(v.eng.IdxSort(), d.Sort)))
		}
		for i, el := range x.Elts {
			if _, ok := el.(*ast.KeyValueExpr); ok {
				panic(unsupportedf(x.Pos(), "keyed slice literal"))
			}
			ev := v.assignable(fr, st, v.evalElem(fr, st, el, sh.Elem), sh.Elem.Typ, x.Pos())
			ls := v.eng.leaves(ev)
			for k := range rows {
				rows[k] = v.eng.C.Store(rows[k], v.idxConst(int64(i)), ls[k])
			}
		}
		v.eng.heapSetRows(st, sh.Elem, ref, rows)
		return SliceVal{Sh: sh, Ref: ref, Off: v.idxConst(0), Len: v.idxConst(n), Cap: v.idxConst(n)}
	}
	panic(unsupportedf(x.Pos(), "composite literal of %s", t))
}

// evalElem evaluates a composite-literal element whose type may be elided.
func (v *Verifier) evalElem(fr *Frame, st *State, e ast.Expr, sh *Shape) Val {
	if cl, ok := e.(*ast.CompositeLit); ok && cl.Type == nil && v.typeOf(fr, cl) == nil {
		panic(unsupportedf(e.Pos(), "elided composite literal type in contract"))
	}
	return v.eval(fr, st, e)
}

func (v *Verifier) freshRef(st *State) *Term {
	// Allocation watermark: every reference allocated so far on this path is in (0, st.alloc);
	// pre-existing (input) references are <= 0. A new object gets the watermark itself, which is
	// therefore distinct from every existing reference, including ones held in havocked variables
	// that an invariant describes as fresh(...).
	if st.alloc == nil {
		st.alloc = v.eng.C.Inti(1)
	}
	r := st.alloc
	st.alloc = v.eng.C.IAdd(st.alloc, v.eng.C.Inti(1))
	if st.log != nil {
		st.log.allocs = true
	}
	return r
}

func (v *Verifier) allocMark(st *State) *Term {
	if st.alloc == nil {
		st.alloc = v.eng.C.Inti(1)
	}
	return st.alloc
}

func (v *Verifier) String() string { return fmt.Sprintf("verifier(%s)", v.curFn) }

// bvToInt: the mathematical value of a bit-vector (hybrid mode bridge).
func (v *Verifier) bvToInt(t *Term, signed bool) *Term {
	c := v.eng.C
	n := c.BV2Nat(t)
	if !signed {
		return n
	}
	w := t.Sort.W
	neg := c.Eq(c.Extract(w-1, w-1, t), c.BVu(1, 1))
	return c.Ite(neg, c.ISub(n, c.Int(new(big.Int).Lsh(big.NewInt(1), uint(w)))), n)
}

// evalTypeAssert: x.(T) on an interface value yields an unconstrained value of type T
// (a sound over-approximation); the comma-ok form adds an unconstrained bool.
func (v *Verifier) evalTypeAssert(fr *Frame, st *State, x *ast.TypeAssertExpr, commaOk bool) Val {
	c := v.eng.C
	src := v.eval(fr, st, x.X)
	t := v.typeOf(fr, x.Type)
	if t == nil {
		panic(unsupportedf(x.Pos(), "type switch guard"))
	}
	sh := v.eng.shapeOf(t)
	if iv, ok := src.(OpaqueVal); ok && !isIfaceType(t) && sh.Kind != ShOpaque {
		isT := c.And(c.Not(iv.Nil), c.Eq(v.dynTag(iv.ID), v.typeCode(t)))
		pl := v.dynPayload(iv.ID, t)
		if commaOk {
			return TupleVal{[]Val{pl, Scalar{isT, types.Typ[types.Bool]}}}
		}
		if iv.ID.Op == "var" && strings.HasPrefix(iv.ID.Name, "pool$get") {
			// a value taken from a sync.Pool has the type the pool's New function produces (trusted)
			st.assume(isT)
			v.intrinsicsUsed["(*sync.Pool).Get: the value has the type the pool's New function produces and is not referenced by anyone else"] = true
			return pl
		}
		if !fr.inSpec {
			v.oblige(fr, st, "typeassert", x.Pos(), isT, "type assertion may fail")
		}
		return pl
	}
	var wf []*Term
	val := v.eng.freshVal(sh, "assert", &wf)
	for _, w := range wf {
		st.assume(w)
	}
	if !commaOk {
		v.notes = append(v.notes, v.prog.fset.Position(x.Pos()).String()+": type assertion assumed to succeed; result unconstrained")
		if p, ok := val.(PtrVal); ok {
			p.Nil = c.Fresh("assert#nil", BoolSort)
			val = p
		}
		return val
	}
	okT := c.Fresh("assert#ok", BoolSort)
	switch o := val.(type) {
	case OpaqueVal:
		st.assume(c.Implies(okT, c.Not(o.Nil))) // a successful assertion yields a non-nil value
	case PtrVal:
		if o.Loc == nil {
			o.Nil = c.Fresh("assert#nil", BoolSort)
			val = o
		}
	}
	return TupleVal{[]Val{val, Scalar{okT, types.Typ[types.Bool]}}}
}
