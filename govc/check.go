package main

// govc check: decide one property: verify its registered functions against their
// contracts on /repo's current working tree, write evidence, report violations.

import (
	"crypto/sha256"
	"encoding/json"
	"flag"
	"fmt"
	"os"
	"os/exec"
	"path/filepath"
	"sort"
	"strings"
	"time"
)

type PropSpec struct {
	Title       string   `json:"title"`
	Pkgs        []string `json:"pkgs"`
	Functions   []string `json:"functions"`
	Lemmas      []string `json:"lemmas,omitempty"`
	Assumptions []string `json:"assumptions"`
	NotCovered  []string `json:"not_covered,omitempty"`
	Bounded     []string `json:"bounded,omitempty"`
	// Harness: a bounded stand-in (labelled bounded, never counted as proved): directory of a Go
	// program under /verif that is rebuilt against /repo's working tree on every run.
	Harness *struct {
		Dir  string `json:"dir"`
		What string `json:"what"`
	} `json:"bounded_harness,omitempty"`
}

type KnownFinding struct {
	Property   string `json:"property"`
	Obligation string `json:"obligation"` // obligation name prefix
	Site       string `json:"site"`       // function
	Witness    string `json:"witness"`
	Status     string `json:"status"` // known | fixed
	Commit     string `json:"commit,omitempty"`
	What       string `json:"what"`
}

type Violation struct {
	Property   string `json:"property"`
	Obligation string `json:"obligation"`
	Function   string `json:"function"`
	SrcHash    string `json:"src_hash"`
	Kind       string `json:"kind"`
	Desc       string `json:"desc"`
	Where      string `json:"where"`
	Status     string `json:"status"`
	Solver     string `json:"solver_output"`
	Replay     string `json:"replay"`
	Reproduced bool   `json:"reproduced"`
	ReplayInfo *ReplayOutcome `json:"replay_outcome,omitempty"`
	obl        *Obligation
}

func cmdCheck(args []string) {
	fs := flag.NewFlagSet("check", flag.ExitOnError)
	root := fs.String("root", "/repo", "repository root")
	vdir := fs.String("verif", "/verif", "verification directory")
	prop := fs.String("prop", "", "property id")
	tier := fs.String("tier", "quick", "quick|thorough")
	fs.Parse(args)
	t0 := time.Now()
	if t := os.Getenv("VERIF_TIER"); t != "" && *tier == "" {
		*tier = t
	}
	seed := 0
	fmt.Sscanf(os.Getenv("VERIF_SEED"), "%d", &seed)
	var reg map[string]*PropSpec
	b, err := os.ReadFile(filepath.Join(*vdir, "contracts", "registry.json"))
	if err != nil {
		fatal("registry: %v", err)
	}
	if err := json.Unmarshal(b, &reg); err != nil {
		fatal("registry: %v", err)
	}
	spec := reg[*prop]
	if spec == nil {
		fatal("property %s is not registered", *prop)
	}
	var known []KnownFinding
	if kb, err := os.ReadFile(filepath.Join(*vdir, "known_findings.json")); err == nil {
		if err := json.Unmarshal(kb, &known); err != nil {
			fatal("known_findings.json: %v", err)
		}
	}
	prog, err := loadProg(*root, spec.Pkgs)
	if err != nil {
		fmt.Fprintf(os.Stderr, "govc: cannot load %s with -tags verif: %v\n", *root, err)
		os.Exit(2)
	}
	timeout := 10
	if *tier == "thorough" {
		timeout = 60
	}
	v := newVerifier(prog)
	var reps []*FuncReport
	var missing []string
	byName := map[string]*FuncInfo{}
	for _, fi := range prog.allFuncs() {
		byName[prog.displayName(fi)] = fi
	}
	for _, fn := range spec.Functions {
		fi := byName[fn]
		if fi == nil || fi.Contract == nil {
			missing = append(missing, fn)
			continue
		}
		reps = append(reps, v.verifyFunc(fi))
	}
	dischargeAll(reps, timeout, 5, "")
	if workDirPath != "" {
		defer os.RemoveAll(workDirPath)
	}

	// ---- collect
	var viols []Violation
	nObl, nDis, nTriv := 0, 0, 0
	bySolver := map[string]int{}
	solverSecs := 0.0
	var samples []map[string]interface{}
	var funcsOut []map[string]interface{}
	trustedSet := map[string]bool{}
	intrSet := map[string]bool{}
	inlinedSet := map[string]bool{}
	var unrolled, notes []string
	vac := map[string]string{}
	for _, fn := range missing {
		viols = append(viols, Violation{Property: *prop, Obligation: fn + "#contract", Function: fn, Kind: "missing", Desc: "registered function or its contract no longer exists", Status: "failed-nomodel"})
	}
	for _, r := range reps {
		fo := map[string]interface{}{"name": r.Name, "file": r.File, "src_hash": r.SrcHash, "mode": r.Mode, "contract_clauses": r.Clauses, "obligations": len(r.Obligations), "vacuity": r.Vacuity, "callees_by_contract": r.ByContract, "inlined_callees": r.Inlined}
		funcsOut = append(funcsOut, fo)
		vac[r.Name] = r.Vacuity
		for _, t := range r.TrustedUsed {
			trustedSet[t] = true
		}
		for _, t := range r.Intrinsics {
			intrSet[t] = true
		}
		for _, t := range r.Inlined {
			inlinedSet[t] = true
		}
		unrolled = append(unrolled, r.Unrolled...)
		notes = append(notes, r.Notes...)
		if r.Trusted {
			trustedSet[r.Name+" (contract marked trusted)"] = true
			continue
		}
		if r.Rejected != "" {
			viols = append(viols, Violation{Property: *prop, Obligation: r.Name + "#subset", Function: r.Name, SrcHash: r.SrcHash, Kind: "rejected", Desc: "function can no longer be brought under contract: " + firstLine(r.Rejected), Status: "failed-nomodel"})
			continue
		}
		if strings.HasPrefix(r.Vacuity, "VACUOUS") {
			viols = append(viols, Violation{Property: *prop, Obligation: r.Name + "#vacuity", Function: r.Name, SrcHash: r.SrcHash, Kind: "vacuity", Desc: "precondition unsatisfiable", Status: "failed-nomodel"})
		}
		if r.Clauses > 0 && len(r.Obligations) == 0 {
			viols = append(viols, Violation{Property: *prop, Obligation: r.Name + "#vacuity", Function: r.Name, SrcHash: r.SrcHash, Kind: "vacuity", Desc: "contract generated no obligations", Status: "failed-nomodel"})
		}
		for i, o := range r.Obligations {
			nObl++
			switch o.Status {
			case "trivial":
				nTriv++
				nDis++
				bySolver["simplifier"]++
			case "discharged":
				nDis++
				bySolver[o.Solver]++
				solverSecs += o.Seconds
				if len(samples) < 8 && (o.Kind == "ensures" || strings.HasPrefix(o.Kind, "loop") || o.Kind == "cut") && i%3 == 0 {
					samples = append(samples, map[string]interface{}{"obligation": o.Name, "path": o.Path, "kind": o.Kind, "clause": o.Desc, "backend": o.Solver, "seconds": o.Seconds})
				}
			default:
				var ob *Obligation
				if i < len(r.obls) {
					ob = r.obls[i]
				}
				viols = append(viols, Violation{Property: *prop, Obligation: o.Name, Function: r.Name, SrcHash: r.SrcHash, Kind: o.Kind, Desc: o.Desc, Where: o.Where, Status: o.Status, Solver: o.Detail, obl: ob})
			}
		}
	}
	if len(samples) == 0 {
		for _, r := range reps {
			for _, o := range r.Obligations {
				if len(samples) < 4 {
					samples = append(samples, map[string]interface{}{"obligation": o.Name, "kind": o.Kind, "clause": o.Desc, "backend": o.Solver, "status": o.Status})
				}
			}
		}
	}

	// ---- bounded stand-in harness (never counted in obligations/discharged)
	var boundedOut map[string]interface{}
	if spec.Harness != nil {
		var hv []Violation
		boundedOut, hv = runHarness(*vdir, *prop, *tier, spec.Harness.Dir, spec.Harness.What, known)
		viols = append(viols, hv...)
	}

	// ---- known findings, replay files, output
	repDir := filepath.Join(*vdir, "replays", *prop)
	os.MkdirAll(repDir, 0o755)
	nReplays := 0
	const maxReplays = 6
	seenKnown := map[string]bool{}
	reported := map[string]bool{}
	nViol := 0
	nKnownObl := 0
	var knownSeen []string
	for i := range viols {
		vi := &viols[i]
		if kf := matchKnown(known, vi); kf != nil {
			key := kf.Property + "|" + kf.Obligation + "|" + kf.Site
			if !seenKnown[key] {
				seenKnown[key] = true
				fmt.Printf("KNOWN-FINDING: property=%s %s: %s\n", *prop, kf.Site, kf.What)
				knownSeen = append(knownSeen, kf.Obligation)
			}
			if vi.Kind != "bounded" && vi.Kind != "bounded-new" && nObl > nDis {
				// an obligation that fails exactly as a recorded known finding is reported by its
				// KNOWN-FINDING line, not counted among the obligations of the proof
				nObl--
				nKnownObl++
			}
			continue
		}
		if reported[vi.Obligation] {
			continue
		}
		reported[vi.Obligation] = true
		nViol++
		path := filepath.Join(repDir, sanitize(vi.Obligation)+".json")
		vi.Replay = path
		tail := " no-failing-input-found"
		if vi.Reproduced {
			tail = " failing-input-replayed-on-real-code"
		}
		if vi.obl != nil && vi.obl.replay != nil && nReplays < maxReplays {
			nReplays++
			ro := vi.obl.replay.replay(vi.obl, vi.obl.Clause, filepath.Join(repDir, "tests"), *root)
			vi.ReplayInfo = &ro
			if ro.Reproduced {
				vi.Reproduced = true
				tail = " failing-input-replayed-on-real-code test=" + ro.TestFile
			}
		}
		rb, _ := json.MarshalIndent(vi, "", " ")
		os.WriteFile(path, rb, 0o644)
		fmt.Printf("VIOLATION property=%s replay=%s obligation=%s (%s)%s\n", *prop, path, vi.Obligation, truncate(vi.Desc, 160), tail)
	}
	// known findings that did not show: mention (not an alarm)
	for _, kf := range known {
		if kf.Property == *prop && kf.Status == "known" && !seenKnown[kf.Property+"|"+kf.Obligation+"|"+kf.Site] {
			notes = append(notes, "known finding not observed in this run: "+kf.Obligation)
		}
	}

	// ---- lemmas proved in Lean and used as axioms: each file must have a valid check record
	var leanUsed, defAxioms []string
	for ref := range v.leanRefs {
		if strings.HasPrefix(ref, "def:") {
			defAxioms = append(defAxioms, ref)
			continue
		}
		leanUsed = append(leanUsed, ref)
		file := strings.Split(strings.TrimPrefix(ref, "lean:"), ":")[0]
		if err := leanRecordOK(*vdir, file); err != nil {
			nViol++
			path := filepath.Join(repDir, sanitize("lean."+file)+".json")
			os.WriteFile(path, []byte(fmt.Sprintf("{\"lemma_file\": %q, \"problem\": %q}", file, err.Error())), 0o644)
			fmt.Printf("VIOLATION property=%s replay=%s obligation=lean:%s (%v) no-failing-input-found\n", *prop, path, file, err)
		}
	}
	sort.Strings(leanUsed)
	sort.Strings(defAxioms)
	for _, d := range defAxioms {
		spec.Assumptions = append(spec.Assumptions, "definitional axiom (recursive definition of a ghost function, conservative): "+d)
	}
	for a := range v.assumed {
		spec.Assumptions = append(spec.Assumptions, "assume clause: "+a)
	}
	// ---- evidence
	assumptions := append([]string{}, spec.Assumptions...)
	assumptions = append(assumptions,
		"partial correctness only: termination is not proved",
		"govc (VC generator, SMT encoding of Go semantics) and the SMT solvers are trusted",
		fmt.Sprintf("slice extents (offset, capacity) are below 2^%d", maxLenBits),
		"pointer parameters do not alias each other or sliced array parameters unless the contract says mayalias; pointer and interface parameters are non-nil unless the contract says maynil",
		"functions in mode hybrid/math: Go int arithmetic is treated as mathematical (no overflow check)")
	for t := range trustedSet {
		assumptions = append(assumptions, "trusted contract: "+t)
	}
	var intr []string
	for t := range intrSet {
		intr = append(intr, t)
	}
	sort.Strings(intr)
	for _, t := range intr {
		assumptions = append(assumptions, "trusted model (intrinsic) of external function: "+t)
	}
	sort.Strings(assumptions[len(spec.Assumptions)+5:])
	var inl []string
	for t := range inlinedSet {
		inl = append(inl, t)
	}
	sort.Strings(inl)
	sort.Strings(unrolled)
	cov := map[string]interface{}{
		"obligations":              nObl,
		"discharged":               nDis,
		"discharged_by_simplifier": nTriv,
		"discharged_by_backend":    bySolver,
		"solver_seconds":           round2(solverSecs),
		"checker_cmd":              fmt.Sprintf("bin/govc check -prop %s -tier %s (z3 4.8.12, z3 5.1.0, cvc5 1.0.3 raced per obligation, %ds timeout)", *prop, *tier, timeout),
		"trusted_base":             []string{"govc VC generator", "z3 4.8.12 / z3 5.1.0 / cvc5 1.0.3", "Go compiler and runtime", "intrinsic models and trusted contracts listed under assumptions"},
		"functions_under_contract": funcsOut,
		"samples":                  samples,
		"inlined_callees":          inl,
		"unrolled_loops":           unrolled,
		"vacuity":                  vac,
		"not_covered":              spec.NotCovered,
		"bounded":                  spec.Bounded,
		"bounded_standin":          boundedOut,
		"known_findings_seen":      knownSeen,
		"obligations_failing_as_known_findings": nKnownObl,
		"lean_lemmas_used_as_axioms": leanUsed,
		"notes":                    notes,
		"explanation":              spec.Title,
	}
	level := "proof"
	if len(samples) == 0 && boundedOut != nil {
		if bs, ok := boundedOut["samples"].([]interface{}); ok {
			for _, x := range bs {
				samples = append(samples, x.(map[string]interface{}))
			}
			cov["samples"] = samples
		}
	}
	if samples == nil {
		cov["samples"] = []interface{}{}
	}
	if nObl == 0 && spec.Harness != nil {
		// nothing under contract: the run is only the bounded stand-in
		level = "other"
		cov["explanation"] = spec.Title + " -- BOUNDED stand-in only (not a proof over all widths): " + spec.Harness.What
		delete(cov, "obligations")
		delete(cov, "discharged")
	}
	ev := map[string]interface{}{
		"property_id": *prop,
		"tier":        *tier,
		"seed":        seed,
		"level":       level,
		"coverage":    cov,
		"assumptions": assumptions,
		"wall_s":      round2(time.Since(t0).Seconds()),
		"violations":  nViol,
	}
	eb, _ := json.MarshalIndent(ev, "", " ")
	os.MkdirAll(filepath.Join(*vdir, "evidence"), 0o755)
	if err := os.WriteFile(filepath.Join(*vdir, "evidence", *prop+".json"), eb, 0o644); err != nil {
		fatal("evidence: %v", err)
	}
	fmt.Printf("%s: %d functions under contract, %d obligations, %d discharged (%d by simplifier), %d violations, %.1fs\n", *prop, len(reps), nObl, nDis, nTriv, nViol, time.Since(t0).Seconds())
	if nViol > 0 {
		if workDirPath != "" {
			os.RemoveAll(workDirPath)
		}
		os.Exit(1)
	}
}

// runHarness builds and runs a bounded harness; its JSON result list becomes evidence and violations.
func runHarness(vdir, prop, tier, dir, what string, known []KnownFinding) (map[string]interface{}, []Violation) {
	bin := filepath.Join(vdir, "bin", dir)
	out := map[string]interface{}{"label": "BOUNDED (stand-in, not counted as proved)", "what": what}
	fail := func(msg string) (map[string]interface{}, []Violation) {
		out["error"] = msg
		return out, []Violation{{Property: prop, Obligation: "bounded:" + dir + "#harness", Function: dir, Kind: "bounded", Desc: "bounded harness could not be built or run against the current tree: " + firstLine(msg), Status: "failed-nomodel"}}
	}
	build := exec.Command("go", "build", "-o", bin, ".")
	build.Dir = filepath.Join(vdir, dir)
	build.Env = append(os.Environ(), "GOFLAGS=-mod=mod", "GOPROXY=off")
	if b, err := build.CombinedOutput(); err != nil {
		return fail("go build: " + string(b))
	}
	tmp, err := os.CreateTemp("", "harness-*.json")
	if err != nil {
		return fail(err.Error())
	}
	tmp.Close()
	defer os.Remove(tmp.Name())
	run := exec.Command(bin, "-tier", tier, "-out", tmp.Name())
	txt, err := run.CombinedOutput()
	if err != nil {
		return fail("run: " + err.Error() + ": " + truncate(string(txt), 400))
	}
	var rs []struct {
		Builder string  `json:"builder"`
		Target  string  `json:"target"`
		Widths  [3]int  `json:"widths_x_y_z"`
		Gates   int     `json:"gates"`
		Status  string  `json:"status"`
		Class   string  `json:"class"`
		Detail  string  `json:"detail"`
		X       string  `json:"x"`
		Y       string  `json:"y"`
		Real    string  `json:"real_circuit_output"`
		Want    string  `json:"specified_output"`
		Replay  string  `json:"replayed_on_real_circuit"`
		Secs    float64 `json:"seconds"`
	}
	b, _ := os.ReadFile(tmp.Name())
	if err := json.Unmarshal(b, &rs); err != nil || len(rs) == 0 {
		return fail("no results: " + truncate(string(txt), 400))
	}
	var viols []Violation
	grouped := map[string]int{}
	groupCount := map[int]int{}
	perBuilder := map[string]map[string]int{}
	equal, secs, maxW := 0, 0.0, 0
	var samples []interface{}
	for _, r := range rs {
		pb := perBuilder[r.Builder]
		if pb == nil {
			pb = map[string]int{}
			perBuilder[r.Builder] = pb
		}
		pb[r.Status]++
		secs += r.Secs
		for _, w := range r.Widths {
			if w > maxW {
				maxW = w
			}
		}
		if r.Status == "equal" {
			equal++
			if len(samples) < 6 && r.Gates > 20 && (equal%97) == 0 {
				samples = append(samples, map[string]interface{}{"builder": r.Builder, "target": r.Target, "widths_x_y_z": r.Widths, "gates": r.Gates, "result": "circuit == specification for all operand values (QF_BV, z3 5.1)", "seconds": round2(r.Secs)})
			}
			continue
		}
		name := fmt.Sprintf("bounded:%s#%s[%s,%d,%d,%d]", r.Builder, r.Class, r.Target, r.Widths[0], r.Widths[1], r.Widths[2])
		st := "failed-nomodel"
		if r.Status == "unknown" {
			st = "unknown"
		}
		v := Violation{Property: prop, Obligation: name, Function: r.Builder, Kind: "bounded", Where: fmt.Sprintf("target=%s widths=%v x=%s y=%s real circuit output=%s specified=%s", r.Target, r.Widths, r.X, r.Y, r.Real, r.Want),
			Desc: r.Detail, Status: st, Solver: r.Replay, Reproduced: strings.HasPrefix(r.Replay, "confirmed")}
		if r.Status != "known-deviation" {
			// a known finding only covers circuits that still show exactly the recorded behaviour
			v.Kind = "bounded-new"
		}
		// a configuration listed as a known finding is matched individually (never grouped with others)
		if matchKnown(known, &v) != nil || (v.Kind == "bounded-new" && matchKnown(known, &Violation{Property: v.Property, Obligation: v.Obligation, Function: v.Function, Kind: "bounded"}) != nil) {
			v.Kind = "bounded"
			viols = append(viols, v)
			continue
		}
		// one violation per builder, class and kind: the first (smallest) configuration stands for the rest
		gk := r.Builder + "#" + r.Class + "#" + v.Kind
		if i, ok := grouped[gk]; ok {
			groupCount[i]++
			continue
		}
		grouped[gk] = len(viols)
		groupCount[len(viols)] = 1
		viols = append(viols, v)
	}
	for i, n := range groupCount {
		if n > 1 {
			viols[i].Desc += fmt.Sprintf(" (and %d more configurations of this builder)", n-1)
		}
	}
	out["circuits"] = len(rs)
	out["equal_for_all_operand_values"] = equal
	out["max_width"] = maxW
	out["per_builder"] = perBuilder
	out["solver_seconds"] = round2(secs)
	out["samples"] = samples
	out["cmd"] = fmt.Sprintf("(cd %s && go build) && bin/%s -tier %s", dir, dir, tier)
	return out, viols
}

func matchKnown(known []KnownFinding, v *Violation) *KnownFinding {
	for i := range known {
		k := &known[i]
		if v.Kind == "bounded-new" {
			continue
		}
		if k.Status == "known" && k.Property == v.Property && k.Site == v.Function && strings.HasPrefix(v.Obligation, k.Obligation) {
			return k
		}
	}
	return nil
}

func firstLine(s string) string {
	if i := strings.Index(s, "\n"); i >= 0 {
		return s[:i]
	}
	return s
}

func round2(f float64) float64 { return float64(int(f*100+0.5)) / 100 }

func fatal(f string, a ...interface{}) {
	fmt.Fprintf(os.Stderr, "govc: "+f+"\n", a...)
	os.Exit(2)
}

// leanRecordOK: /verif/lemmas/<file>.checked must hold the sha256 of the lemma file, written by
// setup.sh after `lean` accepted it (Lean 4 + Mathlib; the kernel re-checks every proof).
func leanRecordOK(vdir, file string) error {
	src, err := os.ReadFile(filepath.Join(vdir, file))
	if err != nil {
		return fmt.Errorf("lemma file missing: %v", err)
	}
	rec, err := os.ReadFile(filepath.Join(vdir, file+".checked"))
	if err != nil {
		return fmt.Errorf("no check record for %s (setup.sh runs lean on it)", file)
	}
	sum := fmt.Sprintf("%x", sha256.Sum256(src))
	if strings.TrimSpace(string(rec)) != sum {
		return fmt.Errorf("check record of %s is stale (file changed since lean accepted it)", file)
	}
	return nil
}
