package main

// Calls: contract-language specials, conversions, builtins, trusted intrinsics,
// calls by contract, inlined calls, uninterpreted spec functions.

import (
	"fmt"
	"go/ast"
	"go/printer"
	"go/token"
	"go/types"
	"math/big"
	"strings"

	"golang.org/x/tools/go/packages"
)

// forkRequest: an inlined call whose return paths cannot be merged asks the enclosing statement
// (which consists of just that call) to be continued once per return path.
type forkRequest struct {
	call *ast.CallExpr
	fr   *Frame
	rets []*State
	outs []Val
}

// withFork runs a statement whose only effectful sub-expression is call; if the inlined call cannot
// merge its return paths the statement is re-run on each of them with the call's result memoised.
func (v *Verifier) withFork(fr *Frame, st *State, call *ast.CallExpr, run func(st *State) []*State) []*State {
	if call == nil || fr.inSpec || !v.simpleArgs(fr, call) {
		return run(st)
	}
	saveC, saveF := v.forkCall, v.forkFrame
	v.forkCall, v.forkFrame = call, fr
	var req *forkRequest
	outs := func() (outs []*State) {
		defer func() {
			v.forkCall, v.forkFrame = saveC, saveF
			if r := recover(); r != nil {
				if fq, ok := r.(*forkRequest); ok && fq.call == call && fq.fr == fr {
					req = fq
					return
				}
				panic(r)
			}
		}()
		return run(st)
	}()
	if req == nil {
		return outs
	}
	outs = nil
	for k, r := range req.rets {
		n := st.fork()
		n.vals, n.heaps, n.pc, n.alloc = r.vals, r.heaps, r.pc, r.alloc
		n.ctl = CtlNormal
		if fr.memo == nil {
			fr.memo = map[*ast.CallExpr]Val{}
		}
		fr.memo[call] = req.outs[k]
		outs = append(outs, run(n)...)
		delete(fr.memo, call)
	}
	return outs
}

// simpleArgs: the receiver and arguments of call contain no calls except conversions and len/cap
// (so evaluating them twice is harmless).
func (v *Verifier) simpleArgs(fr *Frame, call *ast.CallExpr) bool {
	ok := true
	chk := func(e ast.Expr) {
		ast.Inspect(e, func(n ast.Node) bool {
			ce, isCall := n.(*ast.CallExpr)
			if !isCall {
				_, isLit := n.(*ast.FuncLit)
				if isLit {
					ok = false
				}
				return ok
			}
			if tv, has := fr.pkg.TypesInfo.Types[ce.Fun]; has && tv.IsType() {
				return true
			}
			if id, isId := ce.Fun.(*ast.Ident); isId && (id.Name == "len" || id.Name == "cap") {
				return true
			}
			ok = false
			return false
		})
	}
	if sel, isSel := call.Fun.(*ast.SelectorExpr); isSel {
		chk(sel.X)
	}
	for _, a := range call.Args {
		chk(a)
	}
	return ok
}

func (v *Verifier) evalCall(fr *Frame, st *State, x *ast.CallExpr) Val {
	c := v.eng.C
	if fr.memo != nil {
		if val, ok := fr.memo[x]; ok {
			return val
		}
	}
	// contract-language specials
	if id, ok := x.Fun.(*ast.Ident); ok && v.lookupObj(fr, id) == nil {
		switch id.Name {
		case "$implies":
			a := v.asBool(v.evalSpec(fr, st, x.Args[0]), x.Pos())
			n := len(st.pc)
			st.pc = append(st.pc, a)
			b := v.asBool(v.evalSpec(fr, st, x.Args[1]), x.Pos())
			st.pc = st.pc[:n]
			return Scalar{c.Implies(a, b), types.Typ[types.Bool]}
		case "$iff":
			a := v.asBool(v.evalSpec(fr, st, x.Args[0]), x.Pos())
			b := v.asBool(v.evalSpec(fr, st, x.Args[1]), x.Pos())
			return Scalar{c.Eq(a, b), types.Typ[types.Bool]}
		case "$forall", "$exists":
			return v.evalQuant(fr, st, x, id.Name == "$forall")
		case "old":
			if fr.old == nil {
				panic(unsupportedf(x.Pos(), "old() outside a postcondition/invariant"))
			}
			// locals that did not exist at entry keep their current value inside old(...)
			saveCur := fr.oldCur
			fr.oldCur = st
			defer func() { fr.oldCur = saveCur }()
			return v.evalSpec(fr, fr.old, x.Args[0])
		case "before":
			// before(e): e in the state in which the innermost enclosing loop (with invariants) was
			// entered - the values its invariants and the cuts in its body may refer to as "at loop entry"
			if len(fr.loopEntry) == 0 {
				panic(unsupportedf(x.Pos(), "before() outside a loop with invariants"))
			}
			ent := fr.loopEntry[len(fr.loopEntry)-1]
			saveOld, saveCur := fr.old, fr.oldCur
			fr.old, fr.oldCur = ent, st
			defer func() { fr.old, fr.oldCur = saveOld, saveCur }()
			return v.evalSpec(fr, ent, x.Args[0])
		case "ite":
			cond := v.asBool(v.evalSpec(fr, st, x.Args[0]), x.Pos())
			a := v.evalSpec(fr, st, x.Args[1])
			b := v.evalSpec(fr, st, x.Args[2])
			_, au := a.(UntypedConst)
			_, bu := b.(UntypedConst)
			switch {
			case au && bu:
				a, b = v.asScalar(a, x.Pos()), v.asScalar(b, x.Pos())
			case au:
				a = v.coerce(a, typeOfVal(b))
			case bu:
				b = v.coerce(b, typeOfVal(a))
			}
			r, ok := v.eng.iteValScalarAware(cond, a, b)
			if !ok {
				panic(unsupportedf(x.Pos(), "ite over incompatible values"))
			}
			return r
		case "length":
			return v.evalBuiltin(fr, st, "length", x)
		case "suffixOf": // suffixOf(s, t): s is t[k:] for some 0 <= k <= len(t)
			a := v.evalSpec(fr, st, x.Args[0]).(SliceVal)
			b := v.evalSpec(fr, st, x.Args[1]).(SliceVal)
			return Scalar{c.And(c.Eq(a.Ref, b.Ref), v.iLe(b.Off, a.Off), c.Eq(v.iAdd(a.Off, a.Len), v.iAdd(b.Off, b.Len))), types.Typ[types.Bool]}
		case "sameSlice":
			a := v.evalSpec(fr, st, x.Args[0]).(SliceVal)
			b := v.evalSpec(fr, st, x.Args[1]).(SliceVal)
			return Scalar{c.And(c.Eq(a.Ref, b.Ref), c.Eq(a.Off, b.Off), c.Eq(a.Len, b.Len)), types.Typ[types.Bool]}
		case "fresh": // fresh(s): the backing array of s / the object p points to was allocated during this call
			if pv, ok := v.evalSpec(fr, st, x.Args[0]).(PtrVal); ok {
				if pv.Loc != nil {
					return Scalar{c.True(), types.Typ[types.Bool]}
				}
				if v.assumingEnsures > 0 && !pv.Ref.IsConst() && !pv.Ref.open && pv.Ref.Op == "var" {
					return Scalar{c.And(c.Not(pv.Nil), c.Eq(pv.Ref, v.freshRef(st))), types.Typ[types.Bool]}
				}
				return Scalar{c.And(c.Not(pv.Nil), c.ILt(c.Inti(0), pv.Ref), c.ILt(pv.Ref, v.allocMark(st))), types.Typ[types.Bool]}
			}
			a := v.evalSpec(fr, st, x.Args[0]).(SliceVal)
			if v.assumingEnsures > 0 && !a.Ref.IsConst() && !a.Ref.open && a.Ref.Op == "var" {
				// a callee-allocated array: it takes the caller's allocation watermark
				return Scalar{c.Eq(a.Ref, v.freshRef(st)), types.Typ[types.Bool]}
			}
			return Scalar{c.And(c.ILt(c.Inti(0), a.Ref), c.ILt(a.Ref, v.allocMark(st))), types.Typ[types.Bool]}
		case "disjoint": // disjoint(s, t): the two slices share no element
			a := v.evalSpec(fr, st, x.Args[0]).(SliceVal)
			b := v.evalSpec(fr, st, x.Args[1]).(SliceVal)
			return Scalar{c.Or(c.Not(c.Eq(a.Ref, b.Ref)), v.iLe(v.iAdd(a.Off, a.Len), b.Off), v.iLe(v.iAdd(b.Off, b.Len), a.Off)), types.Typ[types.Bool]}
		case "allocated": // allocated(x), only inside an assume clause: x (slice or pointer) is a newly allocated object
			if !v.assumingAfter {
				panic(unsupportedf(x.Pos(), "allocated(...) is only meaningful inside an assume clause"))
			}
			ref := v.freshRef(st)
			switch o := v.evalSpec(fr, st, x.Args[0]).(type) {
			case SliceVal:
				return Scalar{c.Eq(o.Ref, ref), types.Typ[types.Bool]}
			case PtrVal:
				if o.Loc == nil {
					return Scalar{c.And(c.Eq(o.Ref, ref), c.Not(o.Nil)), types.Typ[types.Bool]}
				}
			}
			panic(unsupportedf(x.Pos(), "allocated(...): argument is not a slice or heap pointer"))
		case "samearray": // samearray(s, t): the two slices share their backing array
			a := v.evalSpec(fr, st, x.Args[0]).(SliceVal)
			b := v.evalSpec(fr, st, x.Args[1]).(SliceVal)
			return Scalar{c.Eq(a.Ref, b.Ref), types.Typ[types.Bool]}
		case "offsetOf": // offsetOf(s): index of s[0] in its backing array
			a := v.evalSpec(fr, st, x.Args[0]).(SliceVal)
			return Scalar{a.Off, types.Typ[types.Int]}
		case "released": // released(x): the array of slice x / the object x points to has been handed to a sync.Pool
			v.needIntIdx(x.Pos(), "released")
			var ref *Term
			switch o := v.evalSpec(fr, st, x.Args[0]).(type) {
			case SliceVal:
				ref = o.Ref
			case PtrVal:
				if o.Loc == nil {
					ref = o.Ref
				}
			}
			if ref == nil {
				panic(unsupportedf(x.Pos(), "released(...): argument is not a slice or heap pointer"))
			}
			return Scalar{c.Select(v.ghostHeap(st, gReleased), ref), types.Typ[types.Bool]}
		case "separate": // separate(s, t): the two slices live in different allocations
			a := v.evalSpec(fr, st, x.Args[0]).(SliceVal)
			b := v.evalSpec(fr, st, x.Args[1]).(SliceVal)
			return Scalar{c.Not(c.Eq(a.Ref, b.Ref)), types.Typ[types.Bool]}
		case "sent", "sentMsgs", "sentByte", "rpos", "rlen", "inByte", "atomic", "closedCh", "drainedCh":
			if r, ok := v.ghostBuiltin(fr, st, id.Name, x); ok {
				return r
			}
		case "emod": // emod(a, m): Euclidean remainder (SMT-LIB mod; math/big.Int.Mod)
			a := v.asScalar(v.evalSpec(fr, st, x.Args[0]), x.Pos())
			m := v.asScalar(v.coerce(v.evalSpec(fr, st, x.Args[1]), a.Typ), x.Pos())
			if a.T.Sort != IntSort || m.T.Sort != IntSort {
				panic(unsupportedf(x.Pos(), "emod needs mathematical integers"))
			}
			return Scalar{c.IMod(a.T, m.T), a.Typ}
		case "bigVal": // bigVal(x): the integer denoted by *big.Int x (mode bigmath)
			ref, _ := v.bigRef(v.evalSpec(fr, st, x.Args[0]), x.Pos())
			return Scalar{v.bigVal(st, ref), types.Typ[types.Int]}
		case "bytesVal": // bytesVal(s): big-endian value of a byte slice (uninterpreted)
			return Scalar{v.bytesValue(st, v.evalSpec(fr, st, x.Args[0]).(SliceVal)), types.Typ[types.Int]}
		case "bigBit": // bigBit(x, i): two's-complement bit i of *big.Int x, as bool
			v.needIntIdx(x.Pos(), "bigBit")
			ref, _ := v.bigRef(v.evalSpec(fr, st, x.Args[0]), x.Pos())
			i := v.toIdx(v.coerce(v.evalSpec(fr, st, x.Args[1]), types.Typ[types.Int]), x.Pos())
			return Scalar{c.Select(v.bigBits(st, ref), i), types.Typ[types.Bool]}
		case "isType": // isType(x, T): interface value x holds a T
			iv := v.evalSpec(fr, st, x.Args[0]).(OpaqueVal)
			t := v.resolveType(fr, x.Args[1])
			return Scalar{c.And(c.Not(iv.Nil), c.Eq(v.dynTag(iv.ID), v.typeCode(t))), types.Typ[types.Bool]}
		case "asType": // asType(x, T): the T held by interface value x
			iv := v.evalSpec(fr, st, x.Args[0]).(OpaqueVal)
			return v.dynPayload(iv.ID, v.resolveType(fr, x.Args[1]))
		case "bit": // bit(x, k): bit k of the bit-vector x as bool (k an integer, out of range: false)
			xv := v.asScalar(v.evalSpec(fr, st, x.Args[0]), x.Pos())
			k := v.evalSpec(fr, st, x.Args[1])
			if xv.T.Sort.Kind != SBV {
				panic(unsupportedf(x.Pos(), "bit(): first argument must be a sized integer"))
			}
			w := xv.T.Sort.W
			ks := v.asScalar(v.coerce(k, types.Typ[types.Int]), x.Pos())
			var parts []*Term
			for i := 0; i < w; i++ {
				var eq *Term
				if ks.T.Sort == IntSort {
					eq = c.Eq(ks.T, c.Inti(int64(i)))
				} else {
					eq = c.Eq(ks.T, c.BVu(uint64(i), ks.T.Sort.W))
				}
				parts = append(parts, c.And(eq, c.Eq(c.Extract(i, i, xv.T), c.BVu(1, 1))))
			}
			return Scalar{c.Or(parts...), types.Typ[types.Bool]}
		case "ksByte": // ksByte(stream, k): k-th keystream byte of a cipher.Stream (uninterpreted)
			sv := v.evalSpec(fr, st, x.Args[0]).(OpaqueVal)
			k := v.toIdx(v.coerce(v.evalSpec(fr, st, x.Args[1]), types.Typ[types.Int]), x.Pos())
			return Scalar{c.App("ghost$ks", BVSort(8), sv.ID, k), types.Typ[types.Uint8]}
		case "ksPos": // ksPos(stream): keystream bytes consumed so far
			v.needIntIdx(x.Pos(), "ksPos")
			sv := v.evalSpec(fr, st, x.Args[0]).(OpaqueVal)
			return Scalar{v.nonNeg(c.Select(v.ghostHeap(st, gKsPos), sv.ID)), types.Typ[types.Int]}
		case "bits": // bits(x, hi, lo): extract
			s := v.asScalar(v.evalSpec(fr, st, x.Args[0]), x.Pos())
			hi := v.constInt(fr, st, x.Args[1])
			lo := v.constInt(fr, st, x.Args[2])
			w := hi - lo + 1
			gw := 8
			for gw < w {
				gw *= 2
			}
			return Scalar{c.ZeroExt(c.Extract(hi, lo, s.T), gw), uintTypeOfWidth(gw)}
		}
	}
	if id, ok := x.Fun.(*ast.Ident); ok && v.lookupObj(fr, id) == nil {
		if def := v.prog.defs[fr.pkg.PkgPath+"."+id.Name]; def != nil {
			return v.expandDef(fr, st, def, x)
		}
	}
	if sel, ok := x.Fun.(*ast.SelectorExpr); ok {
		// qualified contract definition: pkg.def(args)
		if id, ok := sel.X.(*ast.Ident); ok && v.lookupObj(fr, id) == nil {
			if pn, ok := v.lookupByName(fr, id.Name).(*types.PkgName); ok {
				if def := v.prog.defs[pn.Imported().Path()+"."+sel.Sel.Name]; def != nil {
					// evaluate the body in the defining package's scope
					savePkg := fr.pkg
					if dp := v.prog.pkgs[pn.Imported().Path()]; dp != nil {
						vals := make([]ast.Expr, 0)
						_ = vals
						r := v.expandDefIn(fr, st, def, x, dp)
						fr.pkg = savePkg
						return r
					}
				}
			}
		}
	}
	info := fr.pkg.TypesInfo
	// conversion
	if tv, ok := info.Types[x.Fun]; ok && tv.IsType() {
		return v.convert(fr, st, v.eval(fr, st, x.Args[0]), tv.Type, x.Pos())
	}
	// builtin
	if id, ok := unparen(x.Fun).(*ast.Ident); ok {
		if b, ok := info.Uses[id].(*types.Builtin); ok {
			return v.evalBuiltin(fr, st, b.Name(), x)
		}
		if info.Uses[id] == nil && info.Defs[id] == nil {
			if o := types.Universe.Lookup(id.Name); o != nil {
				if _, isB := o.(*types.Builtin); isB && v.lookupByName(fr, id.Name) == o {
					return v.evalBuiltin(fr, st, id.Name, x)
				}
			}
		}
	}
	if sel, ok := unparen(x.Fun).(*ast.SelectorExpr); ok {
		if fn, ok := info.Uses[sel.Sel].(*types.Func); ok && fn.FullName() == "encoding/binary.Read" && len(x.Args) == 3 {
			// binary.Read(r, order, &x): x becomes arbitrary data; the error is unconstrained
			v.intrinsicsUsed["encoding/binary.Read (the pointee becomes an arbitrary value of its type)"] = true
			v.eval(fr, st, x.Args[0])
			pv, isPtr := v.eval(fr, st, x.Args[2]).(PtrVal)
			if !isPtr || pv.Loc == nil {
				panic(unsupportedf(x.Pos(), "binary.Read into something other than the address of a variable"))
			}
			var wf []*Term
			nv := v.eng.freshVal(locShape(pv.Loc), "binread", &wf)
			v.eng.store(st, pv.Loc, nv)
			for _, w := range wf {
				st.assume(w)
			}
			res := fn.Type().(*types.Signature).Results()
			okT := c.Fresh("binread$ok", BoolSort)
			if v.eng.IntIdx() {
				// on success the reader has delivered exactly the encoded size of the value
				rdv := v.eval(fr, st, x.Args[0])
				_, isI := rdv.(OpaqueVal)
				_, isP := rdv.(PtrVal)
				if isI || isP {
					bits := 0
					for _, d := range v.eng.leafDescs(locShape(pv.Loc)) {
						if d.Sort.Kind == SBV {
							bits += d.Sort.W
						} else {
							bits = -1 << 30
						}
					}
					id := v.ifaceIdentity(st, rdv, x.Pos())
					posH := v.ghostHeap(st, gRdPos)
					adv := c.Fresh("binread$n", IntSort)
					st.assume(c.ILe(c.Inti(0), adv))
					if bits > 0 && bits%8 == 0 {
						st.assume(c.Implies(okT, c.Eq(adv, c.Inti(int64(bits/8)))))
					}
					v.setGhostHeap(st, gRdPos, c.Store(posH, id, c.IAdd(c.Select(posH, id), adv)))
				}
			}
			return OpaqueVal{Sh: v.eng.shapeOf(res.At(0).Type()), ID: c.Fresh("err", IntSort), Nil: okT}
		}
	}
	fv := v.eval(fr, st, x.Fun)
	switch f := fv.(type) {
	case TypeRef:
		return v.convert(fr, st, v.eval(fr, st, x.Args[0]), f.T, x.Pos())
	case GhostFn:
		return v.ghostApp(fr, st, f, x)
	case FuncRef:
		if f.Fn == nil {
			panic(unsupportedf(x.Pos(), "call of builtin via value"))
		}
		sig := f.Fn.Type().(*types.Signature)
		var args []Val
		isTuple := false
		if len(x.Args) == 1 {
			if tv, ok := info.Types[x.Args[0]]; ok {
				_, isTuple = tv.Type.(*types.Tuple)
			}
		}
		if len(x.Args) == 1 && sig.Params().Len() > 1 && isTuple {
			// f(g()) with multi-value g
			t := v.eval(fr, st, x.Args[0])
			tv, ok := t.(TupleVal)
			if !ok {
				panic(unsupportedf(x.Pos(), "argument count mismatch"))
			}
			args = tv.Vs
		} else {
			for i, a := range x.Args {
				av := v.eval(fr, st, a)
				var pt types.Type
				if sig.Variadic() && i >= sig.Params().Len()-1 {
					if x.Ellipsis.IsValid() {
						pt = sig.Params().At(sig.Params().Len() - 1).Type()
					} else {
						pt = sig.Params().At(sig.Params().Len() - 1).Type().(*types.Slice).Elem()
					}
				} else {
					pt = sig.Params().At(i).Type()
				}
				args = append(args, v.assignable(fr, st, av, pt, a.Pos()))
			}
		}
		return v.doCall(fr, st, f.Fn, f.Recv, args, x)
	case OpaqueVal:
		panic(unsupportedf(x.Pos(), "call of a function value"))
	}
	panic(unsupportedf(x.Pos(), "call of %T (callee expression %s)", fv, exprString(x.Fun)))
}

func unparen(e ast.Expr) ast.Expr {
	for {
		p, ok := e.(*ast.ParenExpr)
		if !ok {
			return e
		}
		e = p.X
	}
}

func uintTypeOfWidth(w int) types.Type {
	switch w {
	case 8:
		return types.Typ[types.Uint8]
	case 16:
		return types.Typ[types.Uint16]
	case 32:
		return types.Typ[types.Uint32]
	case 64:
		return types.Typ[types.Uint64]
	}
	return types.Typ[types.Uint64]
}

func (v *Verifier) constInt(fr *Frame, st *State, e ast.Expr) int {
	val := v.eval(fr, st, e)
	switch x := val.(type) {
	case UntypedConst:
		bi, _ := constToBig(x.V)
		return int(bi.Int64())
	case Scalar:
		if x.T.IsConst() {
			return int(x.T.Val.Int64())
		}
	}
	panic(unsupportedf(e.Pos(), "expected integer constant"))
}

// evalSpec evaluates a sub-expression of a contract expression without safety obligations.
func (v *Verifier) evalSpec(fr *Frame, st *State, e ast.Expr) Val {
	save := fr.inSpec
	fr.inSpec = true
	top := !save
	if top {
		v.curClause = exprString(e)
	}
	r := v.eval(fr, st, e)
	fr.inSpec = save
	if top {
		v.curClause = ""
	}
	return r
}

func (v *Verifier) evalQuant(fr *Frame, st *State, x *ast.CallExpr, forall bool) Val {
	c := v.eng.C
	n := len(x.Args) - 1
	type qv struct {
		name string
		sh   *Shape
	}
	var vars []qv
	for i := 0; i < n; i += 2 {
		t := v.resolveType(fr, x.Args[i+1])
		vars = append(vars, qv{x.Args[i].(*ast.Ident).Name, v.eng.shapeOf(t)})
	}
	saved := map[string]Val{}
	had := map[string]bool{}
	for _, q := range vars {
		if o, ok := fr.ghost[q.name]; ok {
			saved[q.name] = o
			had[q.name] = true
		}
	}
	restore := func() {
		for _, q := range vars {
			if had[q.name] {
				fr.ghost[q.name] = saved[q.name]
			} else {
				delete(fr.ghost, q.name)
			}
		}
	}
	defer restore()
	// Bool variables are expanded by cases (no SMT quantifier); the rest become bound variables.
	var boolVars []qv
	var bvs []*Term
	var ranges []*Term
	for _, q := range vars {
		if q.sh.Kind == ShScalar && q.sh.Sort == BoolSort {
			boolVars = append(boolVars, q)
			continue
		}
		ds := v.eng.leafDescs(q.sh)
		ts := make([]*Term, len(ds))
		for k, d := range ds {
			ts[k] = c.Bound(q.name+d.Path, d.Sort)
			bvs = append(bvs, ts[k])
		}
		val := v.eng.valFromLeaves(q.sh, ts)
		// quantified integers in hybrid/math mode range over all mathematical integers
		// (consistently where the formula is assumed and where it is proved)
		if _, isScalar := val.(Scalar); !isScalar {
			var wf []*Term
			v.eng.wellFormed(val, &wf, false)
			ranges = append(ranges, wf...)
		}
		fr.ghost[q.name] = val
	}
	if len(boolVars) > 6 {
		panic(unsupportedf(x.Pos(), "too many Bool-quantified variables"))
	}
	var parts []*Term
	pc0 := len(st.pc)
	for k := 0; k < 1<<len(boolVars); k++ {
		for i, q := range boolVars {
			fr.ghost[q.name] = Scalar{c.Bool((k>>i)&1 == 1), types.Typ[types.Bool]}
		}
		parts = append(parts, v.asBool(v.evalSpec(fr, st, x.Args[n]), x.Pos()))
	}
	// Facts assumed while the body was evaluated (results of pure calls by contract) under a guard
	// that mentions a bound variable must not escape the quantifier: drop them (only weakens).
	if len(st.pc) > pc0 {
		kept := st.pc[:pc0:pc0]
		for _, t := range st.pc[pc0:] {
			if !t.open {
				kept = append(kept, t)
			}
		}
		st.pc = kept
	}
	if forall {
		body := c.And(parts...)
		return Scalar{c.Forall(bvs, c.Implies(c.And(ranges...), body)), types.Typ[types.Bool]}
	}
	body := c.Or(parts...)
	return Scalar{c.Exists(bvs, c.And(append(ranges, body)...)), types.Typ[types.Bool]}
}

func (v *Verifier) ghostApp(fr *Frame, st *State, f GhostFn, x *ast.CallExpr) Val {
	if strings.HasSuffix(f.Name, ".ufAESOfLabel") {
		// the AES-128 cipher whose key is the 16 big-endian bytes of a label
		c := v.eng.C
		l := v.eval(fr, st, x.Args[0]).(StructVal)
		id := c.App("ufAESKey128", IntSort, c.Concat(l.F[0].(Scalar).T, l.F[1].(Scalar).T))
		return OpaqueVal{Sh: v.eng.shapeOf(f.Sig.Results().At(0).Type()), ID: id, Nil: c.False()}
	}
	if strings.HasSuffix(f.Name, ".ufKS") {
		// keystream byte of a cipher.Stream: the symbol of the XORKeyStream model
		c := v.eng.C
		sv := v.eval(fr, st, x.Args[0]).(OpaqueVal)
		k := v.toIdx(v.coerce(v.eval(fr, st, x.Args[1]), types.Typ[types.Int]), x.Pos())
		return Scalar{c.App("ghost$ks", BVSort(8), sv.ID, k), types.Typ[types.Uint8]}
	}
	if strings.HasSuffix(f.Name, ".ufAESCipher") {
		// the block cipher of a key: the same symbol as the model of aes.NewCipher
		c := v.eng.C
		key := v.eval(fr, st, x.Args[0]).(SliceVal)
		return OpaqueVal{Sh: v.eng.shapeOf(f.Sig.Results().At(0).Type()), ID: v.aesKeyID(st, key), Nil: c.False()}
	}
	if strings.HasSuffix(f.Name, ".ufAESLabel") {
		// the AES block function on labels: the same symbol as the model of cipher.Block.Encrypt
		c := v.eng.C
		alg := v.eval(fr, st, x.Args[0]).(OpaqueVal)
		l := v.eval(fr, st, x.Args[1]).(StructVal)
		in := c.Concat(l.F[0].(Scalar).T, l.F[1].(Scalar).T)
		out := c.App("ufAES", BVSort(128), alg.ID, in)
		u64 := types.Typ[types.Uint64]
		return StructVal{Sh: l.Sh, F: []Val{Scalar{c.Extract(127, 64, out), u64}, Scalar{c.Extract(63, 0, out), u64}}}
	}
	var ts []*Term
	for i, a := range x.Args {
		av := v.assignable(fr, st, v.eval(fr, st, a), f.Sig.Params().At(i).Type(), a.Pos())
		ts = append(ts, v.flattenArg(st, av, a.Pos())...)
	}
	return v.ufResult(f.Name, f.Sig.Results(), ts)
}

// flattenArg flattens a value for use as UF arguments; slices contribute their rows, offset and length.
func (v *Verifier) flattenArg(st *State, a Val, pos token.Pos) []*Term {
	switch x := a.(type) {
	case SliceVal:
		ts := v.eng.heapRows(st, x.Sh.Elem, x.Ref)
		return append(ts, x.Off, x.Len)
	case PtrVal:
		if x.Loc != nil {
			return v.flattenArg(st, v.eng.load(st, x.Loc), pos)
		}
	case StructVal:
		var ts []*Term
		for _, f := range x.F {
			ts = append(ts, v.flattenArg(st, f, pos)...)
		}
		return ts
	}
	return v.eng.leaves(a)
}

func (v *Verifier) ufResult(name string, res *types.Tuple, args []*Term) Val {
	var out []Val
	for i := 0; i < res.Len(); i++ {
		sh := v.eng.shapeOf(res.At(i).Type())
		ds := v.eng.leafDescs(sh)
		ts := make([]*Term, len(ds))
		for k, d := range ds {
			n := name
			if res.Len() > 1 {
				n = fmt.Sprintf("%s#%d", name, i)
			}
			ts[k] = v.eng.C.App(n+d.Path, d.Sort, args...)
		}
		out = append(out, v.eng.valFromLeaves(sh, ts))
	}
	if len(out) == 1 {
		return out[0]
	}
	return TupleVal{out}
}

// ---------- builtins

func (v *Verifier) evalBuiltin(fr *Frame, st *State, name string, x *ast.CallExpr) Val {
	c := v.eng.C
	switch name {
	case "len", "cap", "length":
		a := v.eval(fr, st, x.Args[0])
		if name == "length" {
			name = "len"
		}
		switch s := a.(type) {
		case SliceVal:
			if name == "len" {
				return v.intVal(s.Len)
			}
			return v.intVal(s.Cap)
		case ArrVal:
			return v.intVal(v.idxConst(s.Sh.N))
		case PtrVal:
			es := v.eng.ptrElemShape(s.Sh)
			if es.Kind == ShArray {
				return v.intVal(v.idxConst(es.N))
			}
		case OpaqueVal:
			// string / map / chan length: uninterpreted, non-negative
			l := c.App("len$opaque", v.eng.IdxSort(), s.ID)
			if fr.inSpec {
				return v.intVal(l)
			}
			st.assume(v.iLe(v.idxConst(0), l))
			return v.intVal(l)
		}
		panic(unsupportedf(x.Pos(), "%s of %T", name, a))
	case "make":
		t := v.typeOf(fr, x.Args[0])
		sl, ok := t.Underlying().(*types.Slice)
		if !ok {
			sh := v.eng.shapeOf(t)
			return OpaqueVal{Sh: sh, ID: c.Fresh("make", IntSort), Nil: c.False()}
		}
		_ = sl
		sh := v.eng.shapeOf(t)
		n := v.toIdx(v.coerce(v.eval(fr, st, x.Args[1]), types.Typ[types.Int]), x.Pos())
		cp := n
		if len(x.Args) > 2 {
			cp = v.toIdx(v.coerce(v.eval(fr, st, x.Args[2]), types.Typ[types.Int]), x.Pos())
		}
		if !fr.inSpec {
			v.oblige(fr, st, "makelen", x.Pos(), c.And(v.iLe(v.idxConst(0), n), v.iLe(n, cp), v.iLe(cp, v.idxConst(1<<maxLenBits))), "make: len out of range")
		}
		ref := v.freshRef(st)
		var rows []*Term
		for _, d := range v.eng.leafDescs(sh.Elem) {
			s := ArraySort(v.eng.IdxSort(), d.Sort)
			if strings.HasSuffix(d.Path, "#nil") {
				rows = append(rows, v.eng.liftConst(s, c.True()))
			} else {
				rows = append(rows, v.eng.zeroTerm(s))
			}
		}
		v.eng.heapSetRows(st, sh.Elem, ref, rows)
		return SliceVal{Sh: sh, Ref: ref, Off: v.idxConst(0), Len: n, Cap: cp}
	case "new":
		t := v.typeOf(fr, x.Args[0])
		if isBigInt(t) {
			p := v.newBigPtr(st, types.NewPointer(t))
			if v.bigMath {
				v.setBigVal(st, p.Ref, c.Inti(0))
			} else if v.eng.IntIdx() {
				v.setBigBits(st, p.Ref, c.ConstArray(ArraySort(IntSort, BoolSort), c.False()))
			}
			return p
		}
		sh := v.eng.shapeOf(t)
		cell := v.eng.newCell("new", sh)
		st.vals[cell] = v.eng.zeroVal(sh)
		return PtrVal{Sh: v.eng.shapeOf(types.NewPointer(t)), Loc: VarLoc{cell}, Nil: c.False()}
	case "append":
		s := v.eval(fr, st, x.Args[0])
		sv, ok := s.(SliceVal)
		if !ok {
			if u, isU := s.(UntypedConst); isU && u.V == nil {
				sv = v.eng.zeroVal(v.eng.shapeOf(v.typeOf(fr, x))).(SliceVal)
			} else {
				panic(unsupportedf(x.Pos(), "append to %T", s))
			}
		}
		if x.Ellipsis.IsValid() {
			return v.appendSlice(fr, st, sv, v.eval(fr, st, x.Args[1]), x.Pos())
		}
		var elems []Val
		for _, a := range x.Args[1:] {
			elems = append(elems, v.assignable(fr, st, v.eval(fr, st, a), sv.Sh.Elem.Typ, a.Pos()))
		}
		return v.appendElems(fr, st, sv, elems)
	case "copy":
		d := v.eval(fr, st, x.Args[0]).(SliceVal)
		s, ok := v.eval(fr, st, x.Args[1]).(SliceVal)
		if !ok {
			panic(unsupportedf(x.Pos(), "copy from string"))
		}
		n := v.copySlices(st, d, s)
		return v.intVal(n)
	case "panic":
		if !fr.inSpec {
			v.oblige(fr, st, "panic", x.Pos(), c.False(), "explicit panic reachable")
		}
		st.ctl = CtlDead
		return TupleVal{}
	case "min", "max":
		a := v.eval(fr, st, x.Args[0])
		for _, bexp := range x.Args[1:] {
			b := v.eval(fr, st, bexp)
			op := token.LSS
			if name == "max" {
				op = token.GTR
			}
			if _, ok := a.(UntypedConst); ok {
				a = v.coerce(a, typeOfVal(b))
			}
			b = v.coerce(b, typeOfVal(a))
			cond := v.asBool(v.binop(fr, st, op, a, b, x.Pos()), x.Pos())
			as, bs := v.asScalar(a, x.Pos()), v.asScalar(b, x.Pos())
			a = Scalar{c.Ite(cond, as.T, bs.T), as.Typ}
		}
		return a
	case "clear":
		a := v.eval(fr, st, x.Args[0])
		sv, ok := a.(SliceVal)
		if !ok {
			panic(unsupportedf(x.Pos(), "clear of %T", a))
		}
		v.fillSlice(st, sv, v.eng.zeroVal(sv.Sh.Elem))
		return TupleVal{}
	case "print", "println":
		return TupleVal{}
	case "close":
		chv := v.eval(fr, st, x.Args[0])
		if ov, ok := chv.(OpaqueVal); ok && v.eng.IntIdx() {
			// ghost flag: the channel has been closed (closedCh)
			h := v.ghostHeap(st, gChanClosed)
			v.setGhostHeap(st, gChanClosed, c.Store(h, ov.ID, c.True()))
		}
		return TupleVal{}
	}
	panic(unsupportedf(x.Pos(), "builtin %s", name))
}

func (v *Verifier) appendElems(fr *Frame, st *State, sv SliceVal, elems []Val) Val {
	c := v.eng.C
	k := v.idxConst(int64(len(elems)))
	newLen := v.iAdd(sv.Len, k)
	fits := v.iLe(newLen, sv.Cap)
	fresh := v.freshRef(st)
	newRef := c.Ite(fits, sv.Ref, fresh)
	rows := v.eng.heapRows(st, sv.Sh.Elem, sv.Ref)
	for i, el := range elems {
		ls := v.eng.leaves(el)
		at := v.iAdd(v.iAdd(sv.Off, sv.Len), v.idxConst(int64(i)))
		for r := range rows {
			rows[r] = c.Store(rows[r], at, ls[r])
		}
	}
	v.eng.heapSetRows(st, sv.Sh.Elem, newRef, rows)
	newCap := c.Fresh("appcap", v.eng.IdxSort())
	st.assume(v.iLe(newLen, newCap))
	if !v.eng.IntIdx() {
		st.assume(c.BVUle(newCap, c.BVu(1<<maxLenBits, 64)))
	}
	return SliceVal{Sh: sv.Sh, Ref: newRef, Off: sv.Off, Len: newLen, Cap: c.Ite(fits, sv.Cap, newCap)}
}

func (v *Verifier) appendSlice(fr *Frame, st *State, sv SliceVal, other Val, pos token.Pos) Val {
	c := v.eng.C
	ov, ok := other.(SliceVal)
	if !ok {
		panic(unsupportedf(pos, "append(s, x...) with non-slice"))
	}
	newLen := v.iAdd(sv.Len, ov.Len)
	fits := v.iLe(newLen, sv.Cap)
	fresh := v.freshRef(st)
	newRef := c.Ite(fits, sv.Ref, fresh)
	// new rows: copy of old rows with [off+len, off+len+olen) := other
	dst := SliceVal{Sh: sv.Sh, Ref: newRef, Off: v.iAdd(sv.Off, sv.Len), Len: ov.Len, Cap: ov.Len}
	rows := v.eng.heapRows(st, sv.Sh.Elem, sv.Ref)
	srcRows := v.eng.heapRows(st, ov.Sh.Elem, ov.Ref)
	v.eng.heapSetRows(st, sv.Sh.Elem, newRef, rows)
	v.copyRows(st, dst, ov.Len, srcRows, ov.Off)
	newCap := c.Fresh("appcap", v.eng.IdxSort())
	st.assume(v.iLe(newLen, newCap))
	if !v.eng.IntIdx() {
		st.assume(c.BVUle(newCap, c.BVu(1<<maxLenBits, 64)))
	}
	return SliceVal{Sh: sv.Sh, Ref: newRef, Off: sv.Off, Len: newLen, Cap: c.Ite(fits, sv.Cap, newCap)}
}

// copySlices implements copy(d, s) with memmove semantics; returns n.
func (v *Verifier) copySlices(st *State, d, s SliceVal) *Term {
	c := v.eng.C
	n := c.Ite(v.iLe(d.Len, s.Len), d.Len, s.Len)
	srcRows := v.eng.heapRows(st, s.Sh.Elem, s.Ref)
	v.copyRows(st, d, n, srcRows, s.Off)
	return n
}

// copyRows: dst rows [d.Off, d.Off+n) := srcRows[sOff .. sOff+n), everything else unchanged.
func (v *Verifier) copyRows(st *State, d SliceVal, n *Term, srcRows []*Term, sOff *Term) {
	c := v.eng.C
	// constant small n: explicit stores
	if n.IsConst() && n.Val.IsInt64() && n.Val.Int64() <= 64 {
		rows := v.eng.heapRows(st, d.Sh.Elem, d.Ref)
		for i := int64(0); i < n.Val.Int64(); i++ {
			for r := range rows {
				rows[r] = c.Store(rows[r], v.iAdd(d.Off, v.idxConst(i)), c.Select(srcRows[r], v.iAdd(sOff, v.idxConst(i))))
			}
		}
		v.eng.heapSetRows(st, d.Sh.Elem, d.Ref, rows)
		return
	}
	ds := v.eng.leafDescs(d.Sh.Elem)
	old := v.eng.heapRows(st, d.Sh.Elem, d.Ref)
	newRows := make([]*Term, len(ds))
	for r, ld := range ds {
		nr := c.Fresh("copyrow", ArraySort(v.eng.IdxSort(), ld.Sort))
		newRows[r] = nr
		j := c.Bound("j", v.eng.IdxSort())
		rel := v.iSub(j, d.Off)
		in := c.And(v.iLe(d.Off, j), v.iLt(rel, n))
		if !v.eng.IntIdx() {
			in = c.BVUlt(rel, n)
		}
		body := c.Eq(c.Select(nr, j), c.Ite(in, c.Select(srcRows[r], v.iAdd(sOff, rel)), c.Select(old[r], j)))
		st.assume(c.Forall([]*Term{j}, body))
	}
	v.eng.heapSetRows(st, d.Sh.Elem, d.Ref, newRows)
}

func (v *Verifier) fillSlice(st *State, d SliceVal, val Val) {
	c := v.eng.C
	ds := v.eng.leafDescs(d.Sh.Elem)
	old := v.eng.heapRows(st, d.Sh.Elem, d.Ref)
	ls := v.eng.leaves(val)
	newRows := make([]*Term, len(ds))
	for r, ld := range ds {
		nr := c.Fresh("fillrow", ArraySort(v.eng.IdxSort(), ld.Sort))
		newRows[r] = nr
		j := c.Bound("j", v.eng.IdxSort())
		rel := v.iSub(j, d.Off)
		in := c.And(v.iLe(d.Off, j), v.iLt(rel, d.Len))
		if !v.eng.IntIdx() {
			in = c.BVUlt(rel, d.Len)
		}
		st.assume(c.Forall([]*Term{j}, c.Eq(c.Select(nr, j), c.Ite(in, ls[r], c.Select(old[r], j)))))
	}
	v.eng.heapSetRows(st, d.Sh.Elem, d.Ref, newRows)
}

// ---------- function calls

func funcFullName(fn *types.Func) string { return fn.FullName() }

func (v *Verifier) doCall(fr *Frame, st *State, fn *types.Func, recv Val, args []Val, x *ast.CallExpr) Val {
	full := funcFullName(fn)
	if ov, ok := recv.(OpaqueVal); ok && !fr.inSpec {
		if sig := fn.Type().(*types.Signature); sig.Recv() != nil && isIfaceType(sig.Recv().Type()) {
			v.oblige(fr, st, "nil", x.Pos(), v.eng.C.Not(ov.Nil), "method call on a nil interface value")
		}
	}
	if r, ok := v.intrinsic(fr, st, full, fn, recv, args, x); ok {
		return r
	}
	fi := v.prog.funcs[fn]
	var con *Contract
	if fi != nil {
		con = fi.Contract
	} else {
		con = v.prog.contractByFullName(full)
	}
	isSpec := fi != nil && fi.IsSpec
	switch {
	case isSpec:
		if v.reveal[fn.Name()] || v.reveal["*"] || fr.depth > 0 && v.revealNested(fn.Name()) {
			return v.execInline(fr, st, fi, recv, args, x)
		}
		// opaque: uninterpreted function of the flattened arguments
		var ts []*Term
		if recv != nil {
			ts = append(ts, v.flattenArg(st, recv, x.Pos())...)
		}
		for _, a := range args {
			ts = append(ts, v.flattenArg(st, a, x.Pos())...)
		}
		return v.ufResult("spec$"+fn.Pkg().Name()+"."+fn.Name(), fn.Type().(*types.Signature).Results(), ts)
	case con != nil && !con.Inline:
		return v.callByContract(fr, st, fn, fi, con, recv, args, x)
	case fi != nil && fi.Decl.Body != nil && fi.Pkg.Module != nil && fi.Pkg.Module.Main:
		if fr.inSpec && !(con != nil && con.Inline) && !isPureName(fn) {
			// contract expressions may call small pure repo functions; they are inlined
		}
		v.noteInlined(full)
		return v.execInline(fr, st, fi, recv, args, x)
	}
	if fn.Pkg() != nil && purePackages[fn.Pkg().Path()] {
		// external function from a package of pure helpers: an uninterpreted function of its arguments
		v.intrinsicsUsed[full+" (external, modelled as a pure uninterpreted function of its arguments)"] = true
		var ts []*Term
		if recv != nil {
			ts = append(ts, v.flattenArg(st, recv, x.Pos())...)
		}
		for _, a := range args {
			ts = append(ts, v.flattenArg(st, a, x.Pos())...)
		}
		res := v.ufResult("ext$"+sanitize(full), fn.Type().(*types.Signature).Results(), ts)
		return res
	}
	panic(unsupportedf(x.Pos(), "call of %s: no contract, no body, no intrinsic", full))
}

func isPureName(fn *types.Func) bool { return true }

func (v *Verifier) revealNested(name string) bool { return v.reveal[name] }

func (v *Verifier) noteInlined(full string) {
	if v.inlined == nil {
		v.inlined = map[string]bool{}
	}
	v.inlined[full] = true
}

const maxInlineDepth = 12

// newCallFrame binds receiver and parameters of fn to fresh cells holding the argument values.
func (v *Verifier) newCallFrame(fr *Frame, st *State, fn *types.Func, fi *FuncInfo, recv Val, args []Val) *Frame {
	sig := fn.Type().(*types.Signature)
	cf := &Frame{fi: fi, pkg: fr.pkg, vars: map[types.Object]*Cell{}, byName: map[string]*Cell{}, ghost: map[string]Val{}, depth: fr.depth + 1}
	if fi != nil {
		cf.pkg = fi.Pkg
	} else if p := v.prog.pkgs[fn.Pkg().Path()]; p != nil {
		cf.pkg = p
	}
	bind := func(o *types.Var, val Val) {
		if o == nil {
			return
		}
		cell := v.eng.newCell(o.Name(), v.eng.shapeOf(o.Type()))
		st.vals[cell] = val
		cf.vars[o] = cell
		if o.Name() != "" && o.Name() != "_" {
			cf.byName[o.Name()] = cell
		}
	}
	if sig.Recv() != nil {
		bind(sig.Recv(), recv)
		if sig.Recv().Name() == "" || sig.Recv().Name() == "_" {
			cell := v.eng.newCell("self", v.eng.shapeOf(sig.Recv().Type()))
			st.vals[cell] = recv
			cf.byName["self"] = cell
		}
	}
	np := sig.Params().Len()
	for i := 0; i < np; i++ {
		p := sig.Params().At(i)
		if sig.Variadic() && i == np-1 {
			if len(args) == np {
				if _, ok := args[i].(SliceVal); ok {
					bind(p, args[i])
					continue
				}
			}
			// pack variadic args into a fresh slice
			sh := v.eng.shapeOf(p.Type())
			ref := v.freshRef(st)
			var rows []*Term
			for _, d := range v.eng.leafDescs(sh.Elem) {
				rows = append(rows, v.eng.zeroTerm(ArraySort(v.eng.IdxSort(), d.Sort)))
			}
			extra := args[np-1:]
			for k, a := range extra {
				ls := v.eng.leaves(a)
				for r := range rows {
					rows[r] = v.eng.C.Store(rows[r], v.idxConst(int64(k)), ls[r])
				}
			}
			v.eng.heapSetRows(st, sh.Elem, ref, rows)
			n := v.idxConst(int64(len(extra)))
			bind(p, SliceVal{Sh: sh, Ref: ref, Off: v.idxConst(0), Len: n, Cap: n})
			continue
		}
		bind(p, args[i])
	}
	return cf
}

func (v *Verifier) execInline(fr *Frame, st *State, fi *FuncInfo, recv Val, args []Val, x *ast.CallExpr) Val {
	if fr.depth >= maxInlineDepth {
		panic(unsupportedf(x.Pos(), "inline depth exceeded at %s (recursion?)", fi.Obj.FullName()))
	}
	fn := fi.Obj
	cf := v.newCallFrame(fr, st, fn, fi, recv, args)
	cf.inSpec = fr.inSpec
	cf.old = fr.old
	sig := fn.Type().(*types.Signature)
	// named results
	for i := 0; i < sig.Results().Len(); i++ {
		r := sig.Results().At(i)
		cell := v.eng.newCell(r.Name(), v.eng.shapeOf(r.Type()))
		st.vals[cell] = v.eng.zeroVal(cell.Sh)
		cf.results = append(cf.results, cell)
		if r.Name() != "" {
			cf.vars[r] = cell
			cf.byName[r.Name()] = cell
		}
	}
	v.prescanBoxes(cf, st, fi)
	base := st.fork()
	base.pc = st.pc // same prefix
	work := st.fork()
	work.ctl = CtlNormal
	outs := v.execBlock(cf, work, fi.Decl.Body.List)
	var rets []*State
	for _, o := range outs {
		switch o.ctl {
		case CtlReturn:
			v.runDefers(cf, o)
			rets = append(rets, o)
		case CtlNormal:
			o.results = nil
			if sig.Results().Len() > 0 {
				// fell off the end with named results
				for _, rc := range cf.results {
					o.results = append(o.results, v.eng.load(o, VarLoc{rc}))
				}
			}
			o.ctl = CtlReturn
			v.runDefers(cf, o)
			rets = append(rets, o)
		case CtlDead:
		default:
			panic(unsupportedf(x.Pos(), "break/continue escaped inlined function"))
		}
	}
	if len(rets) == 0 {
		// all paths panic / infeasible
		st.ctl = CtlDead
		return v.deadResult(sig)
	}
	// put results into cells so join can merge them
	var rcells []*Cell
	for i := 0; i < sig.Results().Len(); i++ {
		rcells = append(rcells, v.eng.newCell(fmt.Sprintf("ret%d", i), v.eng.shapeOf(sig.Results().At(i).Type())))
	}
	for _, r := range rets {
		for i, rc := range rcells {
			r.vals[rc] = v.assignable(cf, r, r.results[i], sig.Results().At(i).Type(), x.Pos())
		}
		r.ctl = CtlNormal
		r.results = nil
	}
	merged := v.eng.join(base, rets)
	if len(merged) != 1 {
		if v.forkCall == x && v.forkFrame == fr {
			// the enclosing statement is just this call: continue each return path separately
			req := &forkRequest{call: x, fr: fr, rets: rets}
			for _, r := range rets {
				var out []Val
				for _, rc := range rcells {
					out = append(out, r.vals[rc])
					delete(r.vals, rc)
				}
				if len(out) == 1 {
					req.outs = append(req.outs, out[0])
				} else {
					req.outs = append(req.outs, TupleVal{out})
				}
			}
			panic(req)
		}
		panic(unsupportedf(x.Pos(), "cannot merge %d return paths of inlined %s", len(rets), fn.Name()))
	}
	m := merged[0]
	st.vals, st.heaps, st.pc, st.alloc = m.vals, m.heaps, m.pc, m.alloc
	var out []Val
	for _, rc := range rcells {
		out = append(out, st.vals[rc])
		delete(st.vals, rc)
	}
	if len(out) == 1 {
		return out[0]
	}
	return TupleVal{out}
}

func (v *Verifier) deadResult(sig *types.Signature) Val {
	var out []Val
	for i := 0; i < sig.Results().Len(); i++ {
		out = append(out, v.eng.zeroVal(v.eng.shapeOf(sig.Results().At(i).Type())))
	}
	if len(out) == 1 {
		return out[0]
	}
	return TupleVal{out}
}

// callByContract: assert requires, havoc modifies, assume ensures.
func (v *Verifier) callByContract(fr *Frame, st *State, fn *types.Func, fi *FuncInfo, con *Contract, recv Val, args []Val, x *ast.CallExpr) Val {
	c := v.eng.C
	full := funcFullName(fn)
	if fr.inSpec && !con.Pure {
		// results of a non-pure contract are fresh constants: not meaningful under a quantifier
		chk := func(val Val) {
			defer func() { recover() }()
			for _, t := range v.eng.leaves(val) {
				if t.open {
					panic(unsupportedf(x.Pos(), "call of %s by contract with quantified arguments inside a contract expression (make it pure or use a spec function)", fn.Name()))
				}
			}
		}
		for _, a := range args {
			func() {
				defer func() {
					if r := recover(); r != nil {
						if u, ok := r.(unsupported); ok {
							panic(u)
						}
					}
				}()
				chk(a)
			}()
		}
	}
	if con.Trusted {
		v.trustedUsed[full] = true
	}
	v.calledByContract[full] = true
	cf := v.newCallFrame(fr, st, fn, fi, recv, args)
	sig := fn.Type().(*types.Signature)
	// requires
	if !fr.inSpec {
		for _, cl := range con.Requires {
			t := v.asBool(v.evalSpec(cf, st, cl.Expr), x.Pos())
			v.obligeNamed(fr, st, fmt.Sprintf("call[%s].requires%d", shortFuncName(fn), cl.Ord), x.Pos(), t, "precondition of "+fn.Name()+": "+cl.Text)
		}
	}
	pre := st.fork()
	cf.old = pre
	// havoc modifies
	v.havocModifies(cf, st, pre, con, x.Pos())
	// results
	var res []Val
	var pureRes []Val
	if con.Pure {
		// a pure function is a (deterministic) function of its arguments and the heap they reach
		var ts []*Term
		if recv != nil {
			ts = append(ts, v.flattenArg(pre, recv, x.Pos())...)
		}
		for _, a := range args {
			ts = append(ts, v.flattenArg(pre, a, x.Pos())...)
		}
		switch pr := v.ufResult("pure$"+sanitize(full), sig.Results(), ts).(type) {
		case TupleVal:
			pureRes = pr.Vs
		default:
			pureRes = []Val{pr}
		}
	}
	for i := 0; i < sig.Results().Len(); i++ {
		r := sig.Results().At(i)
		var wf []*Term
		val := v.eng.freshVal(v.eng.shapeOf(r.Type()), "r$"+fn.Name(), &wf)
		if pureRes != nil {
			val = pureRes[i]
			v.eng.wellFormed(val, &wf, false)
		}
		for _, w := range wf {
			st.assume(w)
		}
		res = append(res, val)
		if r.Name() != "" && r.Name() != "_" {
			cell := v.eng.newCell(r.Name(), v.eng.shapeOf(r.Type()))
			st.vals[cell] = val
			cf.byName[r.Name()] = cell
			cf.vars[r] = cell
		}
	}
	cf.resultV = res
	if cf.resultV == nil {
		cf.resultV = []Val{}
	}
	v.assumingEnsures++
	for _, cl := range con.Ensures {
		t := v.asBool(v.evalSpec(cf, st, cl.Expr), x.Pos())
		st.assume(t)
	}
	v.assumingEnsures--
	_ = c
	if len(res) == 1 {
		return res[0]
	}
	return TupleVal{res}
}

func shortFuncName(fn *types.Func) string {
	sig := fn.Type().(*types.Signature)
	if sig.Recv() != nil {
		t := sig.Recv().Type()
		if p, ok := t.(*types.Pointer); ok {
			t = p.Elem()
		}
		if n, ok := t.(*types.Named); ok {
			return n.Obj().Name() + "." + fn.Name()
		}
	}
	return fn.Name()
}

// ModTarget describes one entry of a modifies clause, resolved in some state.
type ModTarget struct {
	Ghost    []string // ghost heap keys whose entry for Ref may change
	Loc      Loc      // a cell / field location (non-heap), or nil
	HeapElem *Shape   // element shape for heap ranges
	Ref      *Term
	Lo, Hi   *Term  // absolute index range [Lo, Hi)
	ObjSh    *Shape // object heap target
	Any      bool   // wildcard over references (allobjects / allelems): the whole heap of that shape
}

// resolveModifies evaluates the modifies clause entries in state st (entry state of the call).
func (v *Verifier) resolveModifies(cf *Frame, st *State, mods []ast.Expr, pos token.Pos) []ModTarget {
	var out []ModTarget
	save := cf.inSpec
	cf.inSpec = true
	defer func() { cf.inSpec = save }()
	for _, m := range mods {
		out = append(out, v.resolveModTarget(cf, st, m, pos)...)
	}
	return out
}

func (v *Verifier) resolveModTarget(cf *Frame, st *State, m ast.Expr, pos token.Pos) []ModTarget {
	if ce, ok := m.(*ast.CallExpr); ok {
		if id, ok := ce.Fun.(*ast.Ident); ok && len(ce.Args) == 1 {
			var keys []string
			switch id.Name {
			case "chanlog":
				keys = []string{gChanLen, gChanData, gChanMsgs, gChanClosed, gChanDrained}
			case "stream":
				keys = []string{gRdPos}
			case "atomic":
				keys = []string{gAtomic}
			case "big":
				keys = []string{gBigBits}
				if v.bigMath {
					keys = []string{gBigVal}
				}
			case "keystream":
				keys = []string{gKsPos}
			case "iolog":
				keys = []string{gChanLen, gChanData, gChanMsgs}
			case "released":
				keys = []string{gReleased}
			case "allobjects":
				// allobjects(T): the fields of every heap object of struct type T may change
				return []ModTarget{{ObjSh: v.eng.shapeOf(v.resolveType(cf, ce.Args[0])), Ref: nil, Any: true}}
			case "allelems":
				// allelems(T): the elements of every array of element type T may change
				return []ModTarget{{HeapElem: v.eng.shapeOf(v.resolveType(cf, ce.Args[0])), Ref: nil, Any: true}}
			}
			if keys != nil {
				if aid, ok := ce.Args[0].(*ast.Ident); ok && aid.Name == "$any" {
					return []ModTarget{{Ghost: keys, Ref: nil}}
				}
				val := v.eval(cf, st, ce.Args[0])
				var ref *Term
				switch o := val.(type) {
				case OpaqueVal:
					ref = o.ID
				case PtrVal:
					ref = v.ptrIdentity(o, pos)
				case SliceVal:
					ref = o.Ref
				}
				if ref == nil {
					panic(unsupportedf(pos, "modifies %s(...): argument has no identity", id.Name))
				}
				return []ModTarget{{Ghost: keys, Ref: ref}}
			}
		}
	}
	switch x := m.(type) {
	case *ast.ParenExpr:
		return v.resolveModTarget(cf, st, x.X, pos)
	case *ast.IndexExpr:
		xt := v.typeOfDyn(cf, st, x.X)
		if sl, ok := xt.Underlying().(*types.Slice); ok {
			_ = sl
			sv := v.eval(cf, st, x.X).(SliceVal)
			if id, ok := x.Index.(*ast.Ident); ok && id.Name == "$all" {
				return []ModTarget{{HeapElem: sv.Sh.Elem, Ref: sv.Ref, Lo: sv.Off, Hi: v.iAdd(sv.Off, sv.Len)}}
			}
			idx := v.toIdx(v.coerce(v.eval(cf, st, x.Index), types.Typ[types.Int]), pos)
			at := v.iAdd(sv.Off, idx)
			return []ModTarget{{HeapElem: sv.Sh.Elem, Ref: sv.Ref, Lo: at, Hi: v.iAdd(at, v.idxConst(1))}}
		}
		if id, ok := x.Index.(*ast.Ident); ok && id.Name == "$all" {
			// whole fixed array
			return v.resolveModTarget(cf, st, x.X, pos)
		}
	case *ast.SliceExpr:
		xt := v.typeOfDyn(cf, st, x.X)
		if _, ok := xt.Underlying().(*types.Slice); ok {
			sv := v.eval(cf, st, x.X).(SliceVal)
			lo, hi := v.idxConst(0), sv.Len
			if x.Low != nil {
				lo = v.toIdx(v.coerce(v.eval(cf, st, x.Low), types.Typ[types.Int]), pos)
			}
			if x.High != nil {
				hi = v.toIdx(v.coerce(v.eval(cf, st, x.High), types.Typ[types.Int]), pos)
			}
			return []ModTarget{{HeapElem: sv.Sh.Elem, Ref: sv.Ref, Lo: v.iAdd(sv.Off, lo), Hi: v.iAdd(sv.Off, hi)}}
		}
	}
	loc := v.lvalue(cf, st, m)
	switch l := loc.(type) {
	case HeapElemLoc:
		return []ModTarget{{HeapElem: l.Sh, Ref: l.Ref, Lo: l.Idx, Hi: v.iAdd(l.Idx, v.idxConst(1))}}
	case HeapObjLoc:
		return []ModTarget{{ObjSh: l.Sh, Ref: l.Ref}}
	case VarLoc:
		if b, ok := st.vals[l.C].(BoxedArr); ok {
			return []ModTarget{{HeapElem: b.Sh.Elem, Ref: b.Ref, Lo: v.idxConst(0), Hi: v.idxConst(b.Sh.N)}}
		}
	}
	return []ModTarget{{Loc: loc}}
}

func (v *Verifier) havocModifies(cf *Frame, st *State, pre *State, con *Contract, pos token.Pos) {
	c := v.eng.C
	targets := v.resolveModifies(cf, pre, con.Modifies, pos)
	heapT := map[string][]ModTarget{} // slice heap key -> targets
	objT := map[string][]ModTarget{}  // obj heap key -> targets
	heapSh := map[string]*Shape{}
	heapLeaf := map[string]LeafDesc{}
	for _, t := range targets {
		switch {
		case t.Ghost != nil:
			for _, k := range t.Ghost {
				h := v.ghostHeap(st, k)
				if t.Ref == nil {
					v.setGhostHeap(st, k, v.eng.C.Fresh("hvghostall", h.Sort))
					continue
				}
				v.setGhostHeap(st, k, v.eng.C.Store(h, t.Ref, v.eng.C.Fresh("hvghost", h.Sort.Elem)))
			}
		case t.Loc != nil:
			sh := locShape(t.Loc)
			var wf []*Term
			nv := v.eng.freshVal(sh, "hv$"+locName(t.Loc), &wf)
			// keep boxed arrays boxed
			v.eng.store(st, t.Loc, nv)
			for _, w := range wf {
				st.assume(w)
			}
		case t.HeapElem != nil:
			for _, d := range v.eng.leafDescs(t.HeapElem) {
				k := sliceHeapKey(t.HeapElem, d)
				heapT[k] = append(heapT[k], t)
				heapSh[k] = t.HeapElem
				heapLeaf[k] = d
			}
		case t.ObjSh != nil:
			for _, d := range v.eng.leafDescs(t.ObjSh) {
				k := objHeapKey(t.ObjSh, d)
				objT[k] = append(objT[k], t)
				heapSh[k] = t.ObjSh
				heapLeaf[k] = d
			}
		}
	}
	for k, ts := range heapT {
		d := heapLeaf[k]
		oldH := v.eng.heap(st, k, v.eng.sliceHeapSort(d))
		anyRef := false
		for _, t := range ts {
			if t.Any {
				anyRef = true
			}
		}
		if anyRef {
			st.heaps[k] = c.Fresh("hvheapall", oldH.Sort)
			if st.log != nil {
				st.log.heaps[k] = true
			}
			continue
		}
		// new heap: rows of the touched refs replaced by fresh rows that agree outside the ranges
		newH := oldH
		byRef := map[*Term][]ModTarget{}
		var refs []*Term
		for _, t := range ts {
			if _, ok := byRef[t.Ref]; !ok {
				refs = append(refs, t.Ref)
			}
			byRef[t.Ref] = append(byRef[t.Ref], t)
		}
		for _, ref := range refs {
			oldRow := c.Select(newH, ref)
			// small constant ranges: quantifier-free havoc by explicit stores
			small := true
			total := int64(0)
			for _, t := range byRef[ref] {
				n, ok := constDiff(t.Lo, t.Hi)
				if !ok || n > 64 {
					small = false
					break
				}
				total += n
			}
			if small && total <= 128 {
				row := oldRow
				for _, t := range byRef[ref] {
					n, _ := constDiff(t.Lo, t.Hi)
					for i := int64(0); i < n; i++ {
						row = c.Store(row, v.iAdd(t.Lo, v.idxConst(i)), c.Fresh("hv", d.Sort))
					}
				}
				newH = c.Store(newH, ref, row)
				continue
			}
			nr := c.Fresh("hvrow", ArraySort(v.eng.IdxSort(), d.Sort))
			j := c.Bound("j", v.eng.IdxSort())
			var covered []*Term
			for _, t := range byRef[ref] {
				covered = append(covered, c.And(v.iLe(t.Lo, j), v.iLt(j, t.Hi)))
			}
			st.assume(c.Forall([]*Term{j}, c.Or(append(covered, c.Eq(c.Select(nr, j), c.Select(oldRow, j)))...)))
			newH = c.Store(newH, ref, nr)
		}
		st.heaps[k] = newH
		if st.log != nil {
			st.log.heaps[k] = true
		}
	}
	for k, ts := range objT {
		d := heapLeaf[k]
		h := v.eng.heap(st, k, v.eng.objHeapSort(d))
		for _, t := range ts {
			if t.Any {
				h = c.Fresh("hvobjall", h.Sort)
				break
			}
		}
		for _, t := range ts {
			if !t.Any {
				h = c.Store(h, t.Ref, c.Fresh("hvobj", d.Sort))
			}
		}
		st.heaps[k] = h
		if st.log != nil {
			st.log.heaps[k] = true
		}
	}
}

func locShape(l Loc) *Shape {
	switch x := l.(type) {
	case VarLoc:
		return x.C.Sh
	case FieldLoc:
		return x.Sh
	case IndexLoc:
		return x.Sh
	case HeapElemLoc:
		return x.Sh
	case HeapObjLoc:
		return x.Sh
	}
	panic("locShape")
}

func locName(l Loc) string {
	switch x := l.(type) {
	case VarLoc:
		return x.C.Name
	case FieldLoc:
		return locName(x.Base) + "." + fmt.Sprint(x.I)
	case IndexLoc:
		return locName(x.Base) + "[]"
	}
	return "heap"
}

// constDiff returns hi-lo when it is a syntactic constant.
func constDiff(lo, hi *Term) (int64, bool) {
	if lo.IsConst() && hi.IsConst() {
		d := new(big.Int).Sub(hi.Val, lo.Val)
		if d.IsInt64() && d.Sign() >= 0 {
			return d.Int64(), true
		}
		return 0, false
	}
	// hi == lo + c
	if (hi.Op == "bvadd" || hi.Op == "+") && hi.Args[0] == lo && hi.Args[1].IsConst() && hi.Args[1].Val.IsInt64() {
		return hi.Args[1].Val.Int64(), true
	}
	if (hi.Op == "bvadd" || hi.Op == "+") && (lo.Op == hi.Op) && hi.Args[0] == lo.Args[0] && hi.Args[1].IsConst() && lo.Args[1].IsConst() {
		d := new(big.Int).Sub(hi.Args[1].Val, lo.Args[1].Val)
		if d.IsInt64() && d.Sign() >= 0 {
			return d.Int64(), true
		}
	}
	return 0, false
}

// expandDef evaluates a contract-level definition with its parameters bound to the arguments.
// expandDefIn expands a definition of another package: arguments are evaluated in the caller's
// package scope, the body in the defining package's.
func (v *Verifier) expandDefIn(fr *Frame, st *State, def *Contract, x *ast.CallExpr, dp *packages.Package) Val {
	if len(x.Args) != len(def.LParams) {
		panic(unsupportedf(x.Pos(), "def %s: wrong number of arguments", def.Key))
	}
	vals := make([]Val, len(x.Args))
	for i, a := range x.Args {
		vals[i] = v.evalSpec(fr, st, a)
	}
	saved := map[string]Val{}
	had := map[string]bool{}
	for i, p := range def.LParams {
		if o, ok := fr.ghost[p.Name]; ok {
			saved[p.Name] = o
			had[p.Name] = true
		}
		fr.ghost[p.Name] = vals[i]
	}
	savePkg, saveScope := fr.pkg, fr.scopeAt
	fr.pkg = dp
	fr.scopeAt = token.NoPos
	defer func() {
		fr.pkg, fr.scopeAt = savePkg, saveScope
		for _, p := range def.LParams {
			if had[p.Name] {
				fr.ghost[p.Name] = saved[p.Name]
			} else {
				delete(fr.ghost, p.Name)
			}
		}
	}()
	return v.evalSpec(fr, st, def.DefBody)
}

func (v *Verifier) expandDef(fr *Frame, st *State, def *Contract, x *ast.CallExpr) Val {
	if len(x.Args) != len(def.LParams) {
		panic(unsupportedf(x.Pos(), "def %s: wrong number of arguments", def.Key))
	}
	saved := map[string]Val{}
	had := map[string]bool{}
	vals := make([]Val, len(x.Args))
	for i, a := range x.Args {
		vals[i] = v.evalSpec(fr, st, a)
		if u, ok := vals[i].(UntypedConst); ok {
			vals[i] = v.convert(fr, st, u, v.resolveType(fr, def.LParams[i].Type), x.Pos())
		}
	}
	for i, p := range def.LParams {
		if o, ok := fr.ghost[p.Name]; ok {
			saved[p.Name] = o
			had[p.Name] = true
		}
		fr.ghost[p.Name] = vals[i]
	}
	defer func() {
		for _, p := range def.LParams {
			if had[p.Name] {
				fr.ghost[p.Name] = saved[p.Name]
			} else {
				delete(fr.ghost, p.Name)
			}
		}
	}()
	// a definition is closed: its names are its parameters and package-level names only
	saveScope := fr.scopeAt
	fr.scopeAt = token.NoPos
	defer func() { fr.scopeAt = saveScope }()
	return v.evalSpec(fr, st, def.DefBody)
}

func exprString(e ast.Expr) string {
	var sb strings.Builder
	printer.Fprint(&sb, token.NewFileSet(), e)
	return sb.String()
}

// purePackages: external packages whose functions are modelled as pure uninterpreted functions.
var purePackages = map[string]bool{"strings": true, "strconv": true, "reflect": true, "unicode": true, "unicode/utf8": true, "math": true}
