import Mathlib

/-!
Number-theoretic facts used as axioms in the SMT context of /verif/govc
(contract clause `axiom "lean:lemmas/vole.lean:<name>"`).  They are statements
about ℤ, independent of the code; `%` on ℤ is the Euclidean remainder, which is
SMT-LIB `mod` and agrees with Go's `%` on non-negative operands.
-/

/-- (x * (y mod p)) mod p = (x * y) mod p -/
theorem mul_emod_right_emod (x y p : ℤ) : (x * (y % p)) % p = (x * y) % p := by
  rw [Int.mul_emod, Int.emod_emod_of_dvd _ (dvd_refl p), ← Int.mul_emod]
