import Mathlib

/-- Offsets defined by `off (k+1) = off k + width k` with non-negative widths are monotone:
every offset up to `n` is at most `off n`. Used (as an axiom of the contracts of
`circuit.Circuit.Compute`) for `ghostIOOff`. -/
theorem off_mono (f d : Nat → Int) (n : Nat)
    (hd : ∀ k, k < n → 0 ≤ d k)
    (hf : ∀ k, k < n → f (k + 1) = f k + d k) :
    ∀ j, j ≤ n → f j ≤ f n := by
  induction n with
  | zero =>
    intro j hj
    have : j = 0 := Nat.le_zero.mp hj
    subst this
    exact le_refl _
  | succ m ih =>
    intro j hj
    have hd' : ∀ k, k < m → 0 ≤ d k := fun k hk => hd k (Nat.lt_succ_of_lt hk)
    have hf' : ∀ k, k < m → f (k + 1) = f k + d k := fun k hk => hf k (Nat.lt_succ_of_lt hk)
    have step : f m ≤ f (m + 1) := by
      rw [hf m (Nat.lt_succ_self m)]
      have := hd m (Nat.lt_succ_self m)
      linarith
    rcases Nat.lt_or_ge j (m + 1) with h | h
    · exact le_trans (ih hd' hf' j (Nat.lt_succ_iff.mp h)) step
    · have : j = m + 1 := le_antisymm hj h
      subst this
      exact le_refl _
