#!/bin/bash
# usage: recheck_seeds.sh [seed-dir-name ...]   (default: all of /verif/seeded/*)
# Must-fail corpus: applies each stored seeded change to /repo, runs the property's quick check,
# reverts, and records in meta.json whether (and by which obligations) it was caught.
cd /verif
export GOFLAGS=-mod=mod GOPROXY=off
seeds=${@:-$(ls seeded)}
rc=0
for s in $seeds; do
  D=/verif/seeded/$s; P=${s%%-*}
  [ -f $D/patch.diff ] || continue
  if ! git -C /repo apply $D/patch.diff 2>/dev/null; then echo "$s: PATCH DOES NOT APPLY"; rc=1; continue; fi
  chk=$(./check.sh $P quick 2>&1 | grep -E "^VIOLATION|violations" | head -6)
  git -C /repo checkout -- .
  caught=no; echo "$chk" | grep -q "^VIOLATION" && caught=yes
  [ $caught = yes ] || rc=1
  python3 - "$D" "$caught" "$chk" <<'PY'
import json,sys
d,caught,chk=sys.argv[1:]
m=json.load(open(d+"/meta.json")); m["caught_by_check"]=caught=="yes"; m["check_output"]=[l[:400] for l in chk.split("\n")]
json.dump(m,open(d+"/meta.json","w"),indent=1)
PY
  echo "$s caught=$caught $(echo "$chk" | head -1 | sed 's/.*obligation=//' | cut -c1-120)"
done
exit $rc
