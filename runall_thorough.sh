#!/bin/sh
# run every registered check in the thorough tier and summarise (long: about an hour)
cd "$(dirname "$0")"
[ -x bin/govc ] || ./setup.sh >/dev/null || exit 2
for p in $(python3 -c "import json;print(' '.join(sorted(json.load(open('contracts/registry.json')))))"); do
  t0=$(date +%s)
  out=$(./check.sh $p thorough 2>&1); rc=$?
  echo "$p rc=$rc $(( $(date +%s) - t0 ))s $(echo "$out" | tail -1)"
  echo "$out" | grep -E "^VIOLATION|^KNOWN" | head -5 | cut -c1-200
done
